//! Hand-written PRNG (no dependency on `rand` versions): splitmix64 seeding a
//! xoshiro256**.  One integer decides everything: every random choice made by a
//! plan generator comes from an `Rng` derived from (VERIF_SEED, property, run).

#[derive(Clone, Debug)]
pub struct Rng {
    s: [u64; 4],
}

pub fn splitmix64(x: &mut u64) -> u64 {
    *x = x.wrapping_add(0x9E37_79B9_7F4A_7C15);
    let mut z = *x;
    z = (z ^ (z >> 30)).wrapping_mul(0xBF58_476D_1CE4_E5B9);
    z = (z ^ (z >> 27)).wrapping_mul(0x94D0_49BB_1331_11EB);
    z ^ (z >> 31)
}

pub fn fnv1a(bytes: &[u8]) -> u64 {
    let mut h: u64 = 0xcbf2_9ce4_8422_2325;
    for b in bytes {
        h ^= *b as u64;
        h = h.wrapping_mul(0x0000_0100_0000_01B3);
    }
    h
}

/// The seed of run `run` of property `prop` under `VERIF_SEED = seed`.
pub fn run_seed(seed: u64, prop: &str, run: u64) -> u64 {
    let mut x = seed ^ fnv1a(prop.as_bytes()) ^ run.wrapping_mul(0x9E37_79B9_7F4A_7C15);
    splitmix64(&mut x)
}

impl Rng {
    pub fn new(seed: u64) -> Self {
        let mut x = seed;
        let s = [
            splitmix64(&mut x),
            splitmix64(&mut x),
            splitmix64(&mut x),
            splitmix64(&mut x),
        ];
        Rng { s }
    }

    pub fn next_u64(&mut self) -> u64 {
        let result = self.s[1].wrapping_mul(5).rotate_left(7).wrapping_mul(9);
        let t = self.s[1] << 17;
        self.s[2] ^= self.s[0];
        self.s[3] ^= self.s[1];
        self.s[1] ^= self.s[2];
        self.s[0] ^= self.s[3];
        self.s[2] ^= t;
        self.s[3] = self.s[3].rotate_left(45);
        result
    }

    /// Uniform in 0..n (n > 0).
    pub fn below(&mut self, n: u64) -> u64 {
        debug_assert!(n > 0);
        // multiply-shift; bias is irrelevant for test generation but keep it tiny
        ((self.next_u64() as u128 * n as u128) >> 64) as u64
    }

    pub fn usize(&mut self, n: usize) -> usize {
        self.below(n as u64) as usize
    }

    /// Uniform in lo..=hi.
    pub fn range(&mut self, lo: i64, hi: i64) -> i64 {
        debug_assert!(hi >= lo);
        lo + self.below((hi - lo + 1) as u64) as i64
    }

    /// True with probability num/den.
    pub fn chance(&mut self, num: u64, den: u64) -> bool {
        self.below(den) < num
    }

    pub fn bool(&mut self) -> bool {
        self.next_u64() & 1 == 1
    }

    pub fn byte(&mut self) -> u8 {
        (self.next_u64() >> 32) as u8
    }

    pub fn pick<'a, T>(&mut self, xs: &'a [T]) -> &'a T {
        &xs[self.usize(xs.len())]
    }

    /// Index drawn with the given integer weights.
    pub fn weighted(&mut self, weights: &[u32]) -> usize {
        let total: u64 = weights.iter().map(|w| *w as u64).sum();
        let mut r = self.below(total.max(1));
        for (i, w) in weights.iter().enumerate() {
            if r < *w as u64 {
                return i;
            }
            r -= *w as u64;
        }
        weights.len() - 1
    }

    pub fn bytes(&mut self, n: usize) -> Vec<u8> {
        (0..n).map(|_| self.byte()).collect()
    }

    pub fn fork(&mut self) -> Rng {
        Rng::new(self.next_u64())
    }
}
