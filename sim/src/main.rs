mod exec;
mod framework;
mod gen;
mod model;
mod plan;
mod props;
mod rng;
mod selftest;
mod session;
mod source;
mod spec;
mod stats;
mod tables;

use framework::*;
use plan::Tier;
use std::path::{Path, PathBuf};

macro_rules! dispatch {
    ($id:expr, $f:ident ( $($a:expr),* )) => {
        match $id {
            "C01" => $f::<props::c01::C01>($($a),*),
            "C03" => $f::<props::c03::C03>($($a),*),
            "C04" => $f::<props::c04::C04>($($a),*),
            "C05" => $f::<props::c05::C05>($($a),*),
            "C13" => $f::<props::c13::C13>($($a),*),
            "C14" => $f::<props::c14::C14>($($a),*),
            "C15" => $f::<props::c15::C15>($($a),*),
            "C17" => $f::<props::c17::C17>($($a),*),
            other => {
                eprintln!("unknown or unclaimed property {other}");
                2
            }
        }
    };
}

fn tier_of(s: &str) -> Tier {
    if s == "thorough" {
        Tier::Thorough
    } else {
        Tier::Quick
    }
}

fn env_seed() -> u64 {
    std::env::var("VERIF_SEED").ok().and_then(|s| s.trim().parse::<u64>().ok()).unwrap_or(1)
}

fn main() {
    exec::install_panic_hook();
    let args: Vec<String> = std::env::args().collect();
    let a = |i: usize| args.get(i).map(|s| s.as_str()).unwrap_or("");
    let code = match a(1) {
        "selftest" => selftest::run(),
        "gen-miri" => selftest::gen_miri(),
        // run <prop> <tier> [--runs N] [--workers W] [--digests file]
        "run" => {
            let mut o = RunOpts {
                tier: tier_of(a(3)),
                seed: env_seed(),
                workers: std::env::var("VERIF_WORKERS").ok().and_then(|s| s.parse().ok()).unwrap_or(16),
                runs_override: None,
                digests_out: None,
                quiet: false,
                write_evidence: true,
            };
            let mut i = 4;
            while i < args.len() {
                match a(i) {
                    "--runs" => {
                        o.runs_override = a(i + 1).parse().ok();
                        i += 1;
                    }
                    "--workers" => {
                        o.workers = a(i + 1).parse().unwrap_or(16);
                        i += 1;
                    }
                    "--digests" => {
                        o.digests_out = Some(PathBuf::from(a(i + 1)));
                        i += 1;
                    }
                    "--quiet" => o.quiet = true,
                    "--no-evidence" => o.write_evidence = false,
                    _ => {}
                }
                i += 1;
            }
            dispatch!(a(2), run_check(&o))
        }
        "worker" => {
            let tier = tier_of(a(3));
            let p = |i: usize| a(i).parse::<u64>().unwrap_or(0);
            let out = PathBuf::from(a(8));
            dispatch!(a(2), worker(tier, p(4), p(5), p(6), p(7), &out, a(9) == "1"))
        }
        "minimise" => dispatch!(a(2), minimise_cmd(Path::new(a(3)), Path::new(a(4)))),
        // replay <file>: runs the plan in a child process so that a plan that kills
        // or hangs the process is itself reported as a reproduction
        "replay" => {
            let file = PathBuf::from(a(2));
            let exe = std::env::current_exe().expect("current_exe");
            let mut ch = match std::process::Command::new(exe).arg("replay-inner").arg(&file).spawn() {
                Ok(c) => c,
                Err(e) => {
                    eprintln!("replay: cannot spawn: {e}");
                    std::process::exit(2);
                }
            };
            let t0 = std::time::Instant::now();
            let mut limit = std::env::var("VERIF_HANG_MS").ok().and_then(|s| s.parse().ok()).unwrap_or(60_000u64);
            if std::fs::read_to_string(&file).map(|t| t.contains("different histories in different processes")).unwrap_or(false) {
                limit = limit.max(900_000); // re-executes two workers' runs up to the recorded one
            }
            let prop = std::fs::read(&file).ok().and_then(|b| serde_json::from_slice::<serde_json::Value>(&b).ok()).map(|v| v["property"].as_str().unwrap_or("?").to_string()).unwrap_or_else(|| "?".into());
            loop {
                match ch.try_wait() {
                    Ok(Some(st)) => match st.code() {
                        Some(c) => break c,
                        None => {
                            println!("replay: the process died ({st:?})");
                            println!("VIOLATION property={prop} replay={}", file.display());
                            break 1;
                        }
                    },
                    Ok(None) => {
                        if t0.elapsed().as_millis() as u64 > limit {
                            let _ = ch.kill();
                            let _ = ch.wait();
                            println!("replay: no result within {limit} ms (hang)");
                            println!("VIOLATION property={prop} replay={}", file.display());
                            break 1;
                        }
                        std::thread::sleep(std::time::Duration::from_millis(10));
                    }
                    Err(_) => break 2,
                }
            }
        }
        "replay-inner" => {
            let file = PathBuf::from(a(2));
            match std::fs::read(&file).ok().and_then(|b| serde_json::from_slice::<serde_json::Value>(&b).ok()) {
                None => {
                    eprintln!("replay: cannot read {}", file.display());
                    2
                }
                Some(v) => {
                    let id = v["property"].as_str().unwrap_or("").to_string();
                    dispatch!(id.as_str(), replay_cmd(&file, &v))
                }
            }
        }
        _ => {
            eprintln!("usage: h263-sim run <prop> <quick|thorough> [--runs N] [--workers W] | replay <file> | selftest");
            2
        }
    };
    std::process::exit(code);
}
