//! Picture specs (semantic description of a picture) and the harness's own
//! encoder (STUB: the repository has no encoder).  Written from H.263 (01/2005)
//! clause 5 and the Sorenson Spark header layout; the VLC code assignments come
//! from the frozen `tables.rs`.  The encoder records the bit offset of every
//! syntax element so that faults can be placed "inside block data of macroblock
//! 3" and oracles can tell which macroblocks a truncated prefix contains.

use crate::tables;
use serde::{Deserialize, Serialize};

#[derive(Default, Clone)]
pub struct BitWriter {
    pub bytes: Vec<u8>,
    pub nbits: usize,
}

impl BitWriter {
    pub fn put(&mut self, value: u32, n: u8) {
        for i in (0..n).rev() {
            let bit = (value >> i) & 1;
            if self.nbits % 8 == 0 {
                self.bytes.push(0);
            }
            if bit == 1 {
                let last = self.bytes.len() - 1;
                self.bytes[last] |= 0x80 >> (self.nbits % 8);
            }
            self.nbits += 1;
        }
    }
    pub fn pos(&self) -> usize {
        self.nbits
    }
}

#[derive(Clone, Copy, Debug, PartialEq, Eq, Serialize, Deserialize)]
pub enum PType {
    I,
    P,
    /// Sorenson only.
    Disposable,
    /// Sorenson only: reserved picture type code 3.
    Reserved3,
}

#[derive(Clone, Debug, PartialEq, Eq, Serialize, Deserialize)]
pub enum Flavour {
    /// Sorenson Spark header; `size_code` 0 = 8-bit custom, 1 = 16-bit custom,
    /// 2..=6 fixed sizes (width/height of the spec must then match), 7 reserved.
    Sorenson { version: u8, size_code: u8 },
    /// Standard H.263 header with a plain PTYPE; `fmt` 1..=5 (sub-QCIF..16CIF).
    StdPtype { fmt: u8, umv: bool, sac: bool, ap: bool, pb: bool },
    /// Standard header with PLUSPTYPE, UFEP=001, custom picture format
    /// (width = multiple of 4, height = multiple of 4), square pixels.
    /// `layers`: ELNUM/RLNUM, written iff the scalability mode is negotiated
    /// (decoder option bit 2).
    StdPlus {
        umv_unlimited: bool,
        #[serde(default)]
        layers: Option<(u8, u8)>,
        /// Further optional PLUSPTYPE header fields (header-variety generator);
        /// `None` = custom format, square pixels, nothing else.
        #[serde(default)]
        hdr: Option<PlusHdr>,
    },
}

/// Optional fields of a PLUSPTYPE header (H.263 5.1.4 - 5.1.19), written as given.
#[derive(Clone, Debug, PartialEq, Eq, Serialize, Deserialize, Default)]
pub struct PlusHdr {
    /// OPPTYPE source format 1..=5 (fixed) or 6 (custom, CPFMT follows).
    pub fmt: u8,
    /// 0 = no UMV, 1 = UMV with UUI "1" (extended range), 2 = UMV with UUI "01" (unlimited).
    pub umv: u8,
    /// Custom picture clock: CPCFC byte and the two ETR bits.
    pub pcf: Option<(u8, u8)>,
    /// Pixel aspect ratio code 1..=15; 15 is followed by EPAR (width, height).
    pub par: u8,
    pub epar: (u8, u8),
    /// OPPTYPE mode bits SAC, AP, AIC, DF, SS, RPS, ISD, AIV, MQ (9 bits, MSB first).
    pub modes: u16,
    /// SSS (2 bits), written when SS is set.
    pub sss: u8,
    /// MPPTYPE picture type code 0..=7 override (None: from the spec's ptype).
    pub type_code: Option<u8>,
    /// MPPTYPE RPR, RRU, RTYPE bits.
    pub mpp_bits: u8,
    /// CPM with PSBI.
    pub cpm: Option<u8>,
    /// UFEP = 000: no OPPTYPE and none of the fields that depend on it (CPFMT, EPAR,
    /// CPCFC/ETR, UUI, SSS, RLNUM); format and optional modes are INHERITED from the
    /// previous picture (a stream joined mid-way when there is none).
    #[serde(default)]
    pub ufep0: bool,
}

/// Macroblock kinds in MCBPC order: 0 Inter, 1 InterQ, 2 Inter4V, 3 Intra,
/// 4 IntraQ, 5 Inter4Vq.
pub const K_INTER: u8 = 0;
pub const K_INTERQ: u8 = 1;
pub const K_INTER4V: u8 = 2;
pub const K_INTRA: u8 = 3;
pub const K_INTRAQ: u8 = 4;
pub const K_INTER4VQ: u8 = 5;

pub fn kind_is_intra(k: u8) -> bool {
    k == K_INTRA || k == K_INTRAQ
}
pub fn kind_has_q(k: u8) -> bool {
    k == K_INTERQ || k == K_INTRAQ || k == K_INTER4VQ
}
pub fn kind_has_4v(k: u8) -> bool {
    k == K_INTER4V || k == K_INTER4VQ
}

#[derive(Clone, Copy, Debug, PartialEq, Eq, Serialize, Deserialize)]
pub enum Esc {
    /// Use the short VLC when the event has one, else the natural escape.
    Auto,
    /// Force the escape form (8-bit level, or 7-bit in Sorenson v1).
    Force,
    /// Sorenson v1 only: force the 11-bit escape form.
    Force11,
}

#[derive(Clone, Debug, PartialEq, Eq, Serialize, Deserialize)]
pub struct Coef {
    pub run: u8,
    pub level: i16,
    pub esc: Esc,
}

#[derive(Clone, Debug, PartialEq, Eq, Serialize, Deserialize, Default)]
pub struct BlockSpec {
    /// INTRADC code (used only in intra macroblocks).
    pub dc: u8,
    /// Coefficient events in zig-zag order; empty = block not coded.
    pub coefs: Vec<Coef>,
}

#[derive(Clone, Debug, PartialEq, Eq, Serialize, Deserialize)]
pub enum MbSpec {
    NotCoded,
    Coded {
        kind: u8,
        /// DQUANT value in {-2,-1,1,2} (only written for +Q kinds).
        dquant: i8,
        /// Differentials in half-sample units (-32..=31); entries 1..3 only
        /// written for four-vector kinds.
        mvd: [(i8, i8); 4],
        blocks: Vec<BlockSpec>, // always 6
        /// Number of MCBPC stuffing codewords written before this macroblock.
        stuffing: u8,
    },
}

#[derive(Clone, Debug, PartialEq, Eq, Serialize, Deserialize)]
pub struct PicSpec {
    pub flavour: Flavour,
    pub tr: u8,
    pub width: u16,
    pub height: u16,
    pub ptype: PType,
    pub deblock: bool,
    pub quant: u8,
    pub pei: Vec<u8>,
    pub mbs: Vec<MbSpec>,
    /// Stuffing codewords after the last macroblock.
    pub tail_stuffing: u8,
    /// Raw (value, nbits) groups appended after the macroblock data
    /// (adversarial generators only; empty for valid pictures).
    #[serde(default)]
    pub extra_bits: Vec<(u32, u8)>,
}

impl PicSpec {
    pub fn mb_cols(&self) -> usize {
        (self.width as usize + 15) / 16
    }
    pub fn mb_rows(&self) -> usize {
        (self.height as usize + 15) / 16
    }
    pub fn mb_count(&self) -> usize {
        self.mb_cols() * self.mb_rows()
    }
    pub fn is_sorenson(&self) -> bool {
        matches!(self.flavour, Flavour::Sorenson { .. })
    }
    pub fn sorenson_v1(&self) -> bool {
        matches!(self.flavour, Flavour::Sorenson { version: 1, .. })
    }
}

/// Bit offsets of syntax elements in the encoded picture.
#[derive(Clone, Debug, Default, Serialize, Deserialize)]
pub struct Marks {
    /// First bit after the picture header (= start of macroblock 0).
    pub header_end: usize,
    /// For macroblock i: (start bit, end of its header (after MVDs), end bit).
    pub mbs: Vec<(usize, usize, usize)>,
    /// Total number of meaningful bits (before padding to a byte boundary).
    pub total_bits: usize,
}

impl Marks {
    /// Number of macroblocks wholly contained in the first `nbytes` bytes.
    pub fn mbs_within(&self, nbytes: usize) -> usize {
        self.mbs.iter().take_while(|m| m.2 <= nbytes * 8).count()
    }
    /// Coarse classification of the syntax element that byte `k` belongs to.
    pub fn classify_byte(&self, k: usize) -> &'static str {
        let bit = k * 8;
        if bit < self.header_end {
            return "header";
        }
        for m in &self.mbs {
            if bit < m.1 {
                return "mb_header";
            }
            if bit < m.2 {
                return "block_data";
            }
        }
        "tail"
    }
}

pub const SORENSON_FIXED: [(u16, u16); 5] = [(352, 288), (176, 144), (128, 96), (320, 240), (160, 120)];
pub const STD_FIXED: [(u16, u16); 5] = [(128, 96), (176, 144), (352, 288), (704, 576), (1408, 1152)];

fn put_code(w: &mut BitWriter, c: (u32, u8)) {
    w.put(c.0, c.1);
}

pub fn mcbpc_code(intra_picture: bool, kind: u8, cb: bool, cr: bool) -> Option<(u32, u8)> {
    let t = if intra_picture { tables::MCBPC_I } else { tables::MCBPC_P };
    t.iter().find(|e| e.0 == kind && e.1 == cb && e.2 == cr).map(|e| (e.3, e.4))
}

pub fn cbpy_code(intra_mb: bool, luma: [bool; 4]) -> (u32, u8) {
    let pat = if intra_mb { luma } else { [!luma[0], !luma[1], !luma[2], !luma[3]] };
    let e = tables::CBPY_INTRA.iter().find(|e| e.0 == pat).expect("cbpy pattern");
    (e.1, e.2)
}

pub fn mvd_code(v: i8) -> (u32, u8) {
    let e = tables::MVD.iter().find(|e| e.0 == v).expect("mvd in -32..=31");
    (e.1, e.2)
}

pub fn tcoef_short(last: bool, run: u8, abs_level: i16) -> Option<(u32, u8)> {
    if abs_level > 12 || abs_level < 1 {
        return None;
    }
    tables::TCOEF
        .iter()
        .find(|e| e.0 == last && e.1 == run && e.2 as i16 == abs_level)
        .map(|e| (e.3, e.4))
}

pub fn dquant_code(d: i8) -> u32 {
    match d {
        -1 => 0,
        -2 => 1,
        1 => 2,
        _ => 3,
    }
}

fn encode_block(w: &mut BitWriter, b: &BlockSpec, intra: bool, v1: bool) {
    if intra {
        w.put(b.dc as u32, 8);
    }
    let n = b.coefs.len();
    for (i, c) in b.coefs.iter().enumerate() {
        let last = i + 1 == n;
        let short = if c.esc == Esc::Auto { tcoef_short(last, c.run, c.level.abs()) } else { None };
        if let Some(code) = short {
            put_code(w, code);
            w.put(if c.level < 0 { 1 } else { 0 }, 1);
        } else {
            put_code(w, tables::TCOEF_ESCAPE);
            if v1 {
                let wide = c.esc == Esc::Force11 || c.level > 63 || c.level < -64;
                w.put(wide as u32, 1);
                w.put(last as u32, 1);
                w.put(c.run as u32 & 63, 6);
                if wide {
                    w.put((c.level as i32 as u32) & 0x7FF, 11);
                } else {
                    w.put((c.level as i32 as u32) & 0x7F, 7);
                }
            } else {
                w.put(last as u32, 1);
                w.put(c.run as u32 & 63, 6);
                w.put((c.level as i32 as u32) & 0xFF, 8);
            }
        }
    }
}

fn encode_header(w: &mut BitWriter, s: &PicSpec) {
    match &s.flavour {
        Flavour::Sorenson { version, size_code } => {
            w.put(1, 17);
            w.put(*version as u32 & 31, 5);
            w.put(s.tr as u32, 8);
            w.put(*size_code as u32 & 7, 3);
            match size_code {
                0 => {
                    w.put(s.width as u32 & 0xFF, 8);
                    w.put(s.height as u32 & 0xFF, 8);
                }
                1 => {
                    w.put(s.width as u32, 16);
                    w.put(s.height as u32, 16);
                }
                _ => {}
            }
            w.put(
                match s.ptype {
                    PType::I => 0,
                    PType::P => 1,
                    PType::Disposable => 2,
                    PType::Reserved3 => 3,
                },
                2,
            );
            w.put(s.deblock as u32, 1);
            w.put(s.quant as u32 & 31, 5);
        }
        Flavour::StdPtype { fmt, umv, sac, ap, pb } => {
            w.put(1, 17);
            w.put(0, 5); // rest of PSC: GN = 0
            w.put(s.tr as u32, 8);
            // PTYPE bits 1..13 (H.263 5.1.3)
            w.put(1, 1); // bit 1: always 1
            w.put(0, 1); // bit 2: always 0
            w.put(0, 1); // split screen off
            w.put(0, 1); // document camera off
            w.put(0, 1); // freeze picture release off
            w.put(*fmt as u32 & 7, 3);
            // bit 9: picture coding type, "0" INTRA, "1" INTER
            w.put(if s.ptype == PType::I { 0 } else { 1 }, 1);
            w.put(*umv as u32, 1);
            w.put(*sac as u32, 1);
            w.put(*ap as u32, 1);
            w.put(*pb as u32, 1);
            w.put(s.quant as u32 & 31, 5);
            w.put(0, 1); // CPM off
        }
        Flavour::StdPlus { umv_unlimited, layers, hdr } => {
            let h = hdr.clone().unwrap_or(PlusHdr { fmt: 6, umv: if *umv_unlimited { 2 } else { 0 }, par: 1, ..Default::default() });
            w.put(1, 17);
            w.put(0, 5);
            w.put(s.tr as u32, 8);
            w.put(1, 1);
            w.put(0, 1);
            w.put(0, 3);
            w.put(7, 3); // source format 111: extended PTYPE
            if h.ufep0 {
                w.put(0, 3); // UFEP = 000
                w.put(h.type_code.map(|t| t as u32 & 7).unwrap_or(if s.ptype == PType::I { 0 } else { 1 }), 3);
                w.put(h.mpp_bits as u32 & 7, 3);
                w.put(0b001, 3);
                match h.cpm {
                    Some(psbi) => {
                        w.put(1, 1);
                        w.put(psbi as u32 & 3, 2);
                    }
                    None => w.put(0, 1),
                }
                if let Some((el, _)) = layers {
                    w.put(*el as u32 & 15, 4); // ELNUM only
                }
                w.put(s.quant as u32 & 31, 5);
                for b in &s.pei {
                    w.put(1, 1);
                    w.put(*b as u32, 8);
                }
                w.put(0, 1);
                return;
            }
            w.put(1, 3); // UFEP = 001
            // OPPTYPE, 18 bits
            w.put(h.fmt as u32 & 7, 3);
            w.put(h.pcf.is_some() as u32, 1); // custom PCF
            w.put((h.umv != 0) as u32, 1); // UMV
            w.put(h.modes as u32 & 0x1FF, 9); // SAC AP AIC DF SS RPS ISD AIV MQ
            w.put(0b1000, 4);
            // MPPTYPE, 9 bits
            w.put(h.type_code.map(|t| t as u32 & 7).unwrap_or(if s.ptype == PType::I { 0 } else { 1 }), 3);
            w.put(h.mpp_bits as u32 & 7, 3); // RPR, RRU, RTYPE
            w.put(0b001, 3);
            match h.cpm {
                Some(psbi) => {
                    w.put(1, 1);
                    w.put(psbi as u32 & 3, 2);
                }
                None => w.put(0, 1),
            }
            if h.fmt == 6 {
                // CPFMT, 23 bits
                w.put(h.par as u32 & 15, 4);
                w.put(((s.width / 4).max(1) - 1) as u32 & 0x1FF, 9);
                w.put(1, 1);
                w.put((s.height / 4) as u32 & 0x1FF, 9);
                if h.par == 15 {
                    w.put(h.epar.0 as u32, 8);
                    w.put(h.epar.1 as u32, 8);
                }
            }
            if let Some((cpcfc, etr)) = h.pcf {
                w.put(cpcfc as u32, 8);
                w.put(etr as u32 & 3, 2);
            }
            match h.umv {
                1 => w.put(1, 1),    // UUI = "1": extended range
                2 => w.put(0b01, 2), // UUI = "01": unlimited
                _ => {}
            }
            if h.modes & 0b0_0001_0000 != 0 {
                w.put(h.sss as u32 & 3, 2); // SSS (slice structured mode)
            }
            if let Some((el, rl)) = layers {
                w.put(*el as u32 & 15, 4); // ELNUM
                w.put(*rl as u32 & 15, 4); // RLNUM (UFEP = 001)
            }
            w.put(s.quant as u32 & 31, 5);
        }
    }
    for b in &s.pei {
        w.put(1, 1);
        w.put(*b as u32, 8);
    }
    w.put(0, 1);
}

/// Encode a picture spec.  Returns (bytes padded with zero bits to a byte
/// boundary, marks).
pub fn encode(s: &PicSpec) -> (Vec<u8>, Marks) {
    let mut w = BitWriter::default();
    let mut marks = Marks::default();
    encode_header(&mut w, s);
    marks.header_end = w.pos();
    let intra_pic = s.ptype == PType::I;
    let v1 = s.sorenson_v1();
    let stuffing = if intra_pic { tables::MCBPC_I_STUFFING } else { tables::MCBPC_P_STUFFING };
    for mb in &s.mbs {
        let start = w.pos();
        match mb {
            MbSpec::NotCoded => {
                // Only meaningful in non-intra pictures; in an intra picture a
                // "not coded" macroblock cannot be expressed, so write nothing.
                if !intra_pic {
                    w.put(1, 1);
                }
                marks.mbs.push((start, w.pos(), w.pos()));
            }
            MbSpec::Coded { kind, dquant, mvd, blocks, stuffing: nstuff } => {
                for _ in 0..*nstuff {
                    if !intra_pic {
                        w.put(0, 1);
                    }
                    put_code(&mut w, stuffing);
                }
                let intra_mb = kind_is_intra(*kind);
                let cb = !blocks[4].coefs.is_empty();
                let cr = !blocks[5].coefs.is_empty();
                // In an intra picture only intra kinds have a code; fall back to
                // the P table code there (produces an invalid picture on purpose
                // only if a generator asks for it).
                let code = mcbpc_code(intra_pic, *kind, cb, cr)
                    .or_else(|| mcbpc_code(false, *kind, cb, cr))
                    .expect("mcbpc");
                if !intra_pic {
                    w.put(0, 1); // COD
                }
                put_code(&mut w, code);
                let luma = [
                    !blocks[0].coefs.is_empty(),
                    !blocks[1].coefs.is_empty(),
                    !blocks[2].coefs.is_empty(),
                    !blocks[3].coefs.is_empty(),
                ];
                put_code(&mut w, cbpy_code(intra_mb, luma));
                if kind_has_q(*kind) {
                    w.put(dquant_code(*dquant), 2);
                }
                if !intra_mb {
                    let n = if kind_has_4v(*kind) { 4 } else { 1 };
                    for v in mvd.iter().take(n) {
                        put_code(&mut w, mvd_code(v.0));
                        put_code(&mut w, mvd_code(v.1));
                    }
                }
                let hdr_end = w.pos();
                for b in blocks.iter().take(6) {
                    encode_block(&mut w, b, intra_mb, v1);
                }
                marks.mbs.push((start, hdr_end, w.pos()));
            }
        }
    }
    for _ in 0..s.tail_stuffing {
        if !intra_pic {
            w.put(0, 1);
        }
        put_code(&mut w, stuffing);
    }
    for (v, n) in &s.extra_bits {
        w.put(*v, (*n).min(32));
    }
    marks.total_bits = w.pos();
    (w.bytes, marks)
}

/// Independent header pre-parser (model H).  Scans the byte string for every
/// bit offset at which a picture start code (16 zeros and a one) begins and
/// returns the largest luma sample count any such header would declare in the
/// given mode.  Used only as the memory screen of C01 ("inputs whose declared
/// picture size would not fit in memory are excluded") and to classify inputs.
pub fn max_declared_samples(bytes: &[u8], sorenson: bool) -> u64 {
    let nbits = bytes.len() * 8;
    let bit = |i: usize| -> u32 {
        if i < nbits {
            ((bytes[i / 8] >> (7 - i % 8)) & 1) as u32
        } else {
            0
        }
    };
    let get = |pos: usize, n: usize| -> u32 {
        let mut v = 0;
        for i in 0..n {
            v = (v << 1) | bit(pos + i);
        }
        v
    };
    let mut worst = 0u64;
    let mut zeros = 0usize;
    for i in 0..nbits {
        if bit(i) == 0 {
            zeros += 1;
            continue;
        }
        let z = zeros;
        zeros = 0;
        if z < 16 {
            continue;
        }
        // start code = 16 zeros + this one; header fields begin at i+1
        let p = i + 1;
        let (w, h) = if sorenson {
            // version(5) tr(8) size(3)
            match get(p + 13, 3) {
                0 => (get(p + 16, 8), get(p + 24, 8)),
                1 => (get(p + 16, 16), get(p + 32, 16)),
                2 => (352, 288),
                3 => (176, 144),
                4 => (128, 96),
                5 => (320, 240),
                6 => (160, 120),
                _ => (0, 0),
            }
        } else {
            // gn(5) tr(8) ptype: 1 0 s d f fmt(3)
            match get(p + 18, 3) {
                1 => (128, 96),
                2 => (176, 144),
                3 => (352, 288),
                4 => (704, 576),
                5 => (1408, 1152),
                7 => {
                    // PLUSPTYPE: UFEP(3) [OPPTYPE(18)] MPPTYPE(9) CPM(1) [PSBI(2)] [CPFMT(23)]
                    let ufep = get(p + 21, 3);
                    if ufep == 1 {
                        let fmt = get(p + 24, 3);
                        match fmt {
                            1 => (128, 96),
                            2 => (176, 144),
                            3 => (352, 288),
                            4 => (704, 576),
                            5 => (1408, 1152),
                            6 => {
                                let cpm = get(p + 24 + 18 + 9, 1);
                                let q = p + 24 + 18 + 9 + 1 + if cpm == 1 { 2 } else { 0 };
                                let pwi = get(q + 4, 9);
                                let phi = get(q + 14, 9);
                                ((pwi + 1) * 4, phi * 4)
                            }
                            _ => (0, 0),
                        }
                    } else {
                        (0, 0)
                    }
                }
                _ => (0, 0),
            }
        };
        worst = worst.max(w as u64 * h as u64);
    }
    worst
}
