//! Harness self-test: the encoder's pictures must be accepted by the real
//! decoder and agree with model P on the pristine tree.
use crate::exec::*;
use crate::gen::*;
use crate::model::recon;
use crate::rng::Rng;
use crate::spec::*;

pub fn run() -> i32 {
    let mut rng = Rng::new(12345);
    let mut bad = 0;
    let mut n_ok = 0;
    let mut probes = recon::Probes::default();
    for it in 0..3000 {
        let mut cfg = GenCfg::draw(&mut rng, &[0, 2, 4]);
        cfg.max_coef_sum = 6000;
        let (w, h) = gen_size(&mut rng, if cfg.flavour == 3 { 0 } else { (it % 4) as u8 });
        let (fl, w, h) = flavour_for(&mut rng, &cfg, w, h);
        let mut slot = Slot::new(if cfg.is_sorenson() { 1 } else { 0 });
        let i = gen_textured_intra(&mut rng, &cfg, fl.clone(), w, h, 0);
        let (bytes, _m) = encode(&i);
        slot.feed(&bytes);
        let o = slot.decode();
        if !o.is_ok() {
            println!("it {it}: I picture {:?} {w}x{h} rejected: {}", fl, o.short());
            bad += 1;
            continue;
        }
        let snap_i = snap_last(&slot.state).unwrap();
        match recon::expect_picture(None, &i, i.mbs.len(), &mut probes).and_then(|e| recon::compare(&e, &snap_i)) {
            Ok(()) => {}
            Err(e) => {
                println!("it {it}: I picture {:?} {w}x{h} model mismatch: {e}", fl);
                bad += 1;
                continue;
            }
        }
        let p = gen_picture(&mut rng, &cfg, fl.clone(), PType::P, w, h, 1);
        let (bytes, _m) = encode(&p);
        slot.new_reader();
        slot.feed(&bytes);
        let o = slot.decode();
        if !o.is_ok() {
            println!("it {it}: P picture {:?} {w}x{h} rejected: {}", fl, o.short());
            bad += 1;
            continue;
        }
        let snap_p = snap_last(&slot.state).unwrap();
        match recon::expect_picture(Some(&snap_i), &p, p.mbs.len(), &mut probes).and_then(|e| recon::compare(&e, &snap_p)) {
            Ok(()) => n_ok += 1,
            Err(e) => {
                println!("it {it}: P picture {:?} {w}x{h} model mismatch: {e}", fl);
                bad += 1;
            }
        }
        if bad > 20 {
            break;
        }
    }
    println!("selftest: ok={n_ok} bad={bad} probes={probes:?}");
    if bad == 0 { 0 } else { 1 }
}
