//! Harness self-test: the encoder's pictures must be accepted by the real
//! decoder and agree with model P on the pristine tree.
use crate::exec::*;
use crate::gen::*;
use crate::model::recon;
use crate::rng::Rng;
use crate::spec::*;

pub fn run() -> i32 {
    let mut rng = Rng::new(12345);
    let mut bad = 0;
    let mut n_ok = 0;
    let mut probes = recon::Probes::default();
    for it in 0..3000 {
        let mut cfg = GenCfg::draw(&mut rng, &[0, 2, 4]);
        cfg.max_coef_sum = 6000;
        let (w, h) = gen_size(&mut rng, if cfg.flavour == 3 { 0 } else { (it % 4) as u8 });
        let (fl, w, h) = flavour_for(&mut rng, &cfg, w, h);
        let mut slot = Slot::new(if cfg.is_sorenson() { 1 } else { 0 });
        let i = gen_textured_intra(&mut rng, &cfg, fl.clone(), w, h, 0);
        let (bytes, _m) = encode(&i);
        slot.feed(&bytes);
        let o = slot.decode();
        if !o.is_ok() {
            println!("it {it}: I picture {:?} {w}x{h} rejected: {}", fl, o.short());
            bad += 1;
            continue;
        }
        let snap_i = snap_last(&slot.state).unwrap();
        match recon::expect_picture(None, &i, i.mbs.len(), &mut probes).and_then(|e| recon::compare(&e, &snap_i)) {
            Ok(()) => {}
            Err(e) => {
                println!("it {it}: I picture {:?} {w}x{h} model mismatch: {e}", fl);
                bad += 1;
                continue;
            }
        }
        let p = gen_picture(&mut rng, &cfg, fl.clone(), PType::P, w, h, 1);
        let (bytes, _m) = encode(&p);
        slot.new_reader();
        slot.feed(&bytes);
        let o = slot.decode();
        if !o.is_ok() {
            println!("it {it}: P picture {:?} {w}x{h} rejected: {}", fl, o.short());
            bad += 1;
            continue;
        }
        let snap_p = snap_last(&slot.state).unwrap();
        match recon::expect_picture(Some(&snap_i), &p, p.mbs.len(), &mut probes).and_then(|e| recon::compare(&e, &snap_p)) {
            Ok(()) => n_ok += 1,
            Err(e) => {
                println!("it {it}: P picture {:?} {w}x{h} model mismatch: {e}", fl);
                bad += 1;
            }
        }
        if bad > 20 {
            break;
        }
    }
    println!("selftest: ok={n_ok} bad={bad} probes={probes:?}");
    if bad == 0 { 0 } else { 1 }
}

/// Emit the byte arrays of the Miri scenario (three tiny streams).
pub fn gen_miri() -> i32 {
    let mut rng = Rng::new(0xC17);
    let emit = |name: &str, pics: &[Vec<u8>]| {
        println!("pub const {name}: &[&[u8]] = &[");
        for p in pics {
            println!("    &{:?},", p);
        }
        println!("];");
    };
    println!("//! Generated once by `h263-sim gen-miri` (harness encoder); frozen.");
    // Sorenson: I, P, disposable P, P of a 16x16 picture
    let mut cfg = GenCfg::draw(&mut rng, &[0]);
    cfg.density = 1;
    cfg.max_coef_sum = 2000;
    cfg.mb_weights = [1, 2, 1, 1, 1, 0, 0];
    let fl = Flavour::Sorenson { version: 0, size_code: 0 };
    let mut pics = Vec::new();
    pics.push(encode(&gen_textured_intra(&mut rng, &cfg, fl.clone(), 16, 16, 1)).0);
    for (i, t) in [PType::P, PType::Disposable, PType::P].iter().enumerate() {
        pics.push(encode(&gen_picture(&mut rng, &cfg, fl.clone(), *t, 16, 16, 2 + i as u8)).0);
    }
    emit("SORENSON", &pics);
    // the same stream with other INTRADC values (a content-only sibling)
    {
        let mut rng2 = Rng::new(0xC17);
        let mut cfg = GenCfg::draw(&mut rng2, &[0]);
        cfg.density = 1;
        cfg.max_coef_sum = 2000;
        cfg.mb_weights = [1, 2, 1, 1, 1, 0, 0];
        let fl = Flavour::Sorenson { version: 0, size_code: 0 };
        let mut specs = vec![gen_textured_intra(&mut rng2, &cfg, fl.clone(), 16, 16, 1)];
        for (i, t) in [PType::P, PType::Disposable, PType::P].iter().enumerate() {
            specs.push(gen_picture(&mut rng2, &cfg, fl.clone(), *t, 16, 16, 2 + i as u8));
        }
        let mut sib = Vec::new();
        for mut sp in specs {
            for mb in sp.mbs.iter_mut() {
                if let MbSpec::Coded { kind, blocks, .. } = mb {
                    if kind_is_intra(*kind) {
                        for b in blocks.iter_mut() {
                            b.dc = b.dc.wrapping_add(37);
                            if b.dc == 0 || b.dc == 128 {
                                b.dc = 99;
                            }
                        }
                    }
                }
            }
            sib.push(encode(&sp).0);
        }
        emit("SORENSON_SIBLING", &sib);
    }
    // standard PLUSPTYPE: I, P of an 8x8 picture (touches the lazily initialised option masks)
    let mut cfg = GenCfg::draw(&mut rng, &[4]);
    cfg.density = 1;
    cfg.max_coef_sum = 2000;
    let fl = Flavour::StdPlus { umv_unlimited: false, layers: None, hdr: None };
    let mut pics = Vec::new();
    pics.push(encode(&gen_textured_intra(&mut rng, &cfg, fl.clone(), 8, 8, 1)).0);
    pics.push(encode(&gen_picture(&mut rng, &cfg, fl.clone(), PType::P, 8, 8, 2)).0);
    // and a corrupted one that must fail the same way everywhere
    let mut bad = pics[1].clone();
    let n = bad.len();
    bad[n / 2] ^= 0x10;
    pics.push(bad);
    emit("STANDARD", &pics);
    0
}
