//! Seeded generation of picture specs (swarm style: every run draws its own
//! configuration, and pictures are drawn under that configuration).

use crate::rng::Rng;
use crate::spec::*;
use serde::{Deserialize, Serialize};

/// Per-run swarm configuration of the picture generator.
#[derive(Clone, Debug, Serialize, Deserialize)]
pub struct GenCfg {
    /// 0 Sorenson v0, 1 Sorenson v1, 2 Sorenson other version number,
    /// 3 standard PTYPE (fixed formats), 4 standard PLUSPTYPE custom format.
    pub flavour: u8,
    /// Weights of macroblock kinds in P pictures:
    /// [not-coded, Inter, InterQ, Inter4V, Intra, IntraQ, Inter4Vq].
    pub mb_weights: [u32; 7],
    /// 0: DC only / empty blocks, 1: sparse, 2: medium, 3: dense.
    pub density: u8,
    /// Probability (in 1/16) that a coefficient is forced into escape form.
    pub esc16: u8,
    /// Motion differential style: 0 zero, 1 small, 2 full range, 3 extreme
    /// (biased to +-16 and wrap), 4 mixed.
    pub mv_style: u8,
    /// Probability (in 1/16) of stuffing before a macroblock.
    pub stuff16: u8,
    /// Probability (in 1/16) that a picture carries PEI bytes.
    pub pei16: u8,
    /// Upper bound on sum of |dequantised coefficient| per block (C03 keeps the
    /// rounding tolerance of the reference model small); 0 = unbounded.
    pub max_coef_sum: u32,
    /// Quantizer style: 0 small (1..6), 1 any 1..31, 2 extremes.
    pub quant_style: u8,
    /// The decoder has the scalability mode negotiated (option bit 2): valid
    /// PLUSPTYPE headers then carry ELNUM/RLNUM.
    #[serde(default)]
    pub scal: bool,
}

impl GenCfg {
    pub fn draw(rng: &mut Rng, flavours: &[u8]) -> GenCfg {
        let mut mb_weights = [0u32; 7];
        // swarm: each kind enabled with probability 3/4, random weight
        for w in mb_weights.iter_mut() {
            if rng.chance(3, 4) {
                *w = 1 + rng.below(8) as u32;
            }
        }
        if mb_weights.iter().all(|w| *w == 0) {
            mb_weights[1] = 1;
        }
        GenCfg {
            flavour: *rng.pick(flavours),
            mb_weights,
            density: rng.below(4) as u8,
            esc16: *rng.pick(&[0u8, 0, 2, 6, 16]),
            mv_style: rng.below(5) as u8,
            stuff16: *rng.pick(&[0u8, 0, 1, 4]),
            pei16: *rng.pick(&[0u8, 0, 4, 12]),
            max_coef_sum: 0,
            quant_style: rng.below(3) as u8,
            scal: false,
        }
    }

    /// Configuration for a decoder created with option bits `opts`: Sorenson
    /// flavours for Sorenson decoders, standard ones otherwise.  With the
    /// scalability mode negotiated only PLUSPTYPE headers are generated (ELNUM
    /// has no place in a plain-PTYPE header).
    pub fn for_opts(rng: &mut Rng, opts: u8) -> GenCfg {
        let sorenson = opts & 1 == 1;
        let mut c = GenCfg::draw(rng, if sorenson { &[0, 1, 2] } else { &[4, 4, 4, 3] });
        c.scal = opts & 2 != 0;
        if c.scal && c.flavour == 3 {
            c.flavour = 4;
        }
        c
    }

    pub fn is_sorenson(&self) -> bool {
        self.flavour <= 2
    }
}

/// Draw a picture size.  `class`: 0 tiny (<= 2x2 macroblocks, any residue),
/// 1 small (<= 5x5), 2 medium (<= 11x9), 3 edge cases (1, 2, 7, 8, 9, 15, 16, 17).
pub fn gen_size(rng: &mut Rng, class: u8) -> (u16, u16) {
    const EDGE: [u16; 12] = [1, 2, 3, 7, 8, 9, 15, 16, 17, 24, 31, 33];
    if class == 3 && rng.chance(1, 60) {
        // extreme aspect: thousands of samples in one dimension, a handful in the other
        let long = *rng.pick(&[1000u16, 2047, 2048, 4095, 4097, 16384, 65535]);
        let short = rng.range(1, 3) as u16;
        return if rng.bool() { (long, short) } else { (short, long) };
    }
    let mut dim = |rng: &mut Rng| -> u16 {
        match class {
            0 => rng.range(1, 32) as u16,
            1 => rng.range(1, 80) as u16,
            2 => rng.range(1, 176) as u16,
            _ => *rng.pick(&EDGE),
        }
    };
    (dim(rng), dim(rng))
}

/// The flavour value and a size that flavour can express, near (w, h).
pub fn flavour_for(rng: &mut Rng, cfg: &GenCfg, w: u16, h: u16) -> (Flavour, u16, u16) {
    match cfg.flavour {
        0 | 1 | 2 => {
            let version = match cfg.flavour {
                0 => 0,
                1 => 1,
                _ => *rng.pick(&[2u8, 3, 7, 31]),
            };
            if let Some(i) = SORENSON_FIXED.iter().position(|d| *d == (w, h)) {
                if rng.bool() {
                    return (Flavour::Sorenson { version, size_code: 2 + i as u8 }, w, h);
                }
            }
            let size_code = if w > 255 || h > 255 || rng.chance(1, 4) { 1 } else { 0 };
            (Flavour::Sorenson { version, size_code }, w, h)
        }
        3 => {
            // fixed formats only; sub-QCIF unless asked for something larger
            let fmt = if rng.chance(1, 60) {
                3 // CIF: 396 macroblocks
            } else if w as u32 * h as u32 > 128 * 96 && rng.chance(1, 8) {
                2
            } else {
                1
            };
            let (fw, fh) = STD_FIXED[fmt as usize - 1];
            (Flavour::StdPtype { fmt, umv: false, sac: false, ap: false, pb: false }, fw, fh)
        }
        _ => {
            let w4 = ((w as u32 + 3) / 4 * 4).clamp(4, 2048) as u16;
            let h4 = ((h as u32 + 3) / 4 * 4).clamp(4, 1020) as u16;
            let layers = if cfg.scal { Some((rng.below(16) as u8, rng.below(16) as u8)) } else { None };
            (Flavour::StdPlus { umv_unlimited: false, layers, hdr: None }, w4, h4)
        }
    }
}

/// Another header encoding of the same picture size, where the syntax has one
/// (Sorenson: fixed size codes 2..=6 vs 8-bit custom vs 16-bit custom).  Real
/// encoders are free to mix them from picture to picture.
pub fn requalify(rng: &mut Rng, fl: &Flavour, w: u16, h: u16) -> Flavour {
    match fl {
        Flavour::Sorenson { version, .. } => {
            let mut codes: Vec<u8> = vec![1];
            if w <= 255 && h <= 255 {
                codes.push(0);
            }
            if let Some(i) = SORENSON_FIXED.iter().position(|d| *d == (w, h)) {
                codes.push(2 + i as u8);
                codes.push(2 + i as u8);
            }
            Flavour::Sorenson { version: *version, size_code: *rng.pick(&codes) }
        }
        other => other.clone(),
    }
}

/// Sizes that have a fixed code in the Sorenson header (sub-QCIF, 160x120, QCIF;
/// the two large ones only when `large`).
pub fn gen_fixed_sorenson_size(rng: &mut Rng, large: bool) -> (u16, u16) {
    if large && rng.chance(1, 4) {
        *rng.pick(&[(352u16, 288u16), (320, 240)])
    } else {
        *rng.pick(&[(128u16, 96u16), (128, 96), (160, 120), (176, 144)])
    }
}

pub fn gen_quant(rng: &mut Rng, cfg: &GenCfg) -> u8 {
    match cfg.quant_style {
        0 => rng.range(1, 6) as u8,
        1 => rng.range(1, 31) as u8,
        _ => *rng.pick(&[1u8, 2, 30, 31, 16]),
    }
}

fn gen_mvd_component(rng: &mut Rng, style: u8) -> i8 {
    match style {
        0 => 0,
        1 => rng.range(-3, 3) as i8,
        2 => rng.range(-32, 31) as i8,
        3 => *rng.pick(&[-32i8, -31, -30, 30, 31, 0, 1, -1, 16, -16]),
        _ => {
            let s = rng.below(4) as u8;
            gen_mvd_component(rng, s)
        }
    }
}

fn valid_dc(rng: &mut Rng) -> u8 {
    loop {
        let v = match rng.below(8) {
            0 => 255,
            1 => *rng.pick(&[1u8, 254, 127, 129]),
            _ => rng.byte(),
        };
        if v != 0 && v != 128 {
            return v;
        }
    }
}

/// |dequantised level| for quantizer q (H.263 6.2.1), before saturation.
pub fn dequant_abs(q: u8, level: i16) -> u32 {
    let l = level.unsigned_abs() as u32;
    let q = q as u32;
    let v = q * (2 * l + 1);
    if q % 2 == 0 {
        v.saturating_sub(1)
    } else {
        v
    }
}

pub fn gen_block(rng: &mut Rng, cfg: &GenCfg, intra: bool, v1: bool, quant: u8, force_coded: Option<bool>) -> BlockSpec {
    let dc = if intra { valid_dc(rng) } else { 0 };
    let coded = match force_coded {
        Some(c) => c,
        None => match cfg.density {
            0 => rng.chance(1, 8),
            1 => rng.chance(1, 3),
            2 => rng.chance(2, 3),
            _ => rng.chance(7, 8),
        },
    };
    let mut coefs = Vec::new();
    if coded {
        let target = match cfg.density {
            0 => 1,
            1 => 1 + rng.below(3) as usize,
            2 => 1 + rng.below(8) as usize,
            _ => 1 + rng.below(if intra { 62 } else { 63 }) as usize,
        };
        let mut idx: usize = if intra { 1 } else { 0 };
        let mut sum: u32 = if intra { (dc as u32) * 8 } else { 0 };
        while coefs.len() < target && idx < 64 {
            let room = 63 - idx;
            let run = match rng.below(4) {
                0 => 0,
                1 => rng.below(3).min(room as u64) as usize,
                2 => rng.below(room as u64 + 1) as usize,
                _ => {
                    if cfg.density >= 3 {
                        0
                    } else {
                        rng.below((room as u64).min(8) + 1) as usize
                    }
                }
            };
            let esc = if (rng.below(16) as u8) < cfg.esc16 {
                if v1 && rng.chance(1, 3) {
                    Esc::Force11
                } else {
                    Esc::Force
                }
            } else {
                Esc::Auto
            };
            let mag: i16 = match rng.below(10) {
                0..=5 => rng.range(1, 3) as i16,
                6..=7 => rng.range(1, 12) as i16,
                8 => rng.range(1, 127) as i16,
                _ => {
                    if v1 {
                        *rng.pick(&[63i16, 64, 127, 128, 500, 1023])
                    } else {
                        *rng.pick(&[12i16, 13, 64, 126, 127])
                    }
                }
            };
            let mut level = if rng.bool() { mag } else { -mag };
            // keep the level expressible in the chosen form
            if v1 {
                level = level.clamp(-1023, 1023);
                if esc == Esc::Force && !(-64..=63).contains(&level) {
                    // Force means 7-bit here; out-of-range levels go 11-bit
                }
            } else {
                level = level.clamp(-127, 127);
            }
            if level == 0 {
                level = 1;
            }
            if cfg.max_coef_sum > 0 {
                // shrink the level until the block stays under the bound
                let mut l = level;
                while l.abs() > 1 && sum + dequant_abs(quant.max(1), l).min(2048) > cfg.max_coef_sum {
                    l /= 2;
                }
                if sum + dequant_abs(quant.max(1), l).min(2048) > cfg.max_coef_sum {
                    break;
                }
                level = l;
            }
            sum += dequant_abs(quant.max(1), level).min(2048);
            coefs.push(Coef { run: run as u8, level, esc });
            idx += run + 1;
        }
    }
    BlockSpec { dc, coefs }
}

fn quant_after(q: u8, d: i8) -> u8 {
    (q as i8 + d).clamp(1, 31) as u8
}

/// Generate one macroblock for a picture of type `ptype`, tracking the
/// quantizer in force (`q` is updated for +Q kinds).
pub fn gen_mb(rng: &mut Rng, cfg: &GenCfg, ptype: PType, v1: bool, q: &mut u8) -> MbSpec {
    let kind_ix = if ptype == PType::I {
        // intra pictures: Intra / IntraQ only
        if cfg.mb_weights[5] > 0 && rng.chance(1, 3) {
            5
        } else {
            4
        }
    } else {
        rng.weighted(&cfg.mb_weights)
    };
    if kind_ix == 0 {
        return MbSpec::NotCoded;
    }
    let kind = (kind_ix - 1) as u8;
    let dquant = *rng.pick(&[-2i8, -1, 1, 2]);
    if kind_has_q(kind) {
        *q = quant_after(*q, dquant);
    }
    let intra = kind_is_intra(kind);
    let mut mvd = [(0i8, 0i8); 4];
    if !intra {
        let n = if kind_has_4v(kind) { 4 } else { 1 };
        for v in mvd.iter_mut().take(n) {
            *v = (gen_mvd_component(rng, cfg.mv_style), gen_mvd_component(rng, cfg.mv_style));
        }
    }
    let blocks = (0..6).map(|_| gen_block(rng, cfg, intra, v1, *q, None)).collect();
    let stuffing = if (rng.below(16) as u8) < cfg.stuff16 {
        if rng.chance(1, 24) {
            3 + rng.below(30) as u8 // a long run of stuffing codewords
        } else {
            1 + rng.below(2) as u8
        }
    } else {
        0
    };
    MbSpec::Coded { kind, dquant, mvd, blocks, stuffing }
}

pub fn gen_pei(rng: &mut Rng, cfg: &GenCfg) -> Vec<u8> {
    if (rng.below(16) as u8) < cfg.pei16 {
        let n = if rng.chance(1, 24) { 4 + rng.below(60) as usize } else { 1 + rng.below(3) as usize };
        rng.bytes(n)
    } else {
        Vec::new()
    }
}

/// A complete valid picture.
pub fn gen_picture(rng: &mut Rng, cfg: &GenCfg, flavour: Flavour, ptype: PType, w: u16, h: u16, tr: u8) -> PicSpec {
    let quant = gen_quant(rng, cfg);
    let mut s = PicSpec {
        flavour,
        tr,
        width: w,
        height: h,
        ptype,
        deblock: rng.bool(),
        quant,
        pei: gen_pei(rng, cfg),
        mbs: Vec::new(),
        tail_stuffing: 0,
        extra_bits: Vec::new(),
    };
    let v1 = s.sorenson_v1();
    let mut q = quant;
    for _ in 0..s.mb_count() {
        let mb = gen_mb(rng, cfg, ptype, v1, &mut q);
        s.mbs.push(mb);
    }
    s
}

/// A cheap, high-entropy intra picture (random INTRADC per block, a few AC
/// coefficients) used as a reference so that wrong prediction is visible.
pub fn gen_textured_intra(rng: &mut Rng, cfg: &GenCfg, flavour: Flavour, w: u16, h: u16, tr: u8) -> PicSpec {
    let mut c = cfg.clone();
    c.density = c.density.max(1);
    c.quant_style = 0;
    c.stuff16 = 0;
    let mut s = gen_picture(rng, &c, flavour, PType::I, w, h, tr);
    // make sure every block has a distinct DC so copies are attributable
    for mb in s.mbs.iter_mut() {
        if let MbSpec::Coded { blocks, .. } = mb {
            for b in blocks.iter_mut() {
                b.dc = valid_dc(rng);
            }
        }
    }
    s
}
