//! Thin executor layer around the REAL code under test: decoder slots, calls
//! wrapped in `catch_unwind`, snapshots of the observable decoder state.

use crate::rng::fnv1a;
use crate::source::{new_pipe, SharedPipe, SimSource, SrcFault, BUDGET_MARKER};
use h263_rs::parser::H263Reader;
use h263_rs::{DecoderOption, H263State};
use std::panic::{catch_unwind, AssertUnwindSafe};

pub type Reader = H263Reader<SimSource>;

thread_local! {
    static LAST_PANIC: std::cell::RefCell<Option<String>> = const { std::cell::RefCell::new(None) };
}

/// Install a panic hook that records location + message per thread instead of
/// printing.  Called once per process.
pub fn install_panic_hook() {
    std::panic::set_hook(Box::new(|info| {
        let loc = info
            .location()
            .map(|l| format!("{}:{}", l.file(), l.line()))
            .unwrap_or_else(|| "?".into());
        let msg = if let Some(s) = info.payload().downcast_ref::<&str>() {
            (*s).to_string()
        } else if let Some(s) = info.payload().downcast_ref::<String>() {
            s.clone()
        } else {
            "<non-string panic>".to_string()
        };
        // panics on a main thread (driver, worker main loop) are harness bugs: show them
        if std::thread::current().name() == Some("main") {
            eprintln!("HARNESS-PANIC (main thread) at {loc}: {msg}");
        }
        LAST_PANIC.with(|p| *p.borrow_mut() = Some(format!("{loc}: {msg}")));
    }));
}

pub fn take_panic() -> String {
    LAST_PANIC.with(|p| p.borrow_mut().take()).unwrap_or_else(|| "<panic without hook>".into())
}

/// Run `f`, turning a panic into `Err(location: message)`.
pub fn guarded<T>(f: impl FnOnce() -> T) -> Result<T, String> {
    match catch_unwind(AssertUnwindSafe(f)) {
        Ok(v) => Ok(v),
        Err(_) => Err(take_panic()),
    }
}

/// Normalise a panic string into a violation class: strip the /repo prefix and
/// numbers inside the message so that "index 4 / len 4" and "index 9 / len 9"
/// are the same class, but keep file:line.
pub fn panic_class(p: &str) -> String {
    // strip the checkout prefix (normally /repo/) so that classes do not depend on
    // where the code under test lives
    let mut p = p.replace("/repo/", "");
    for krate in ["h263/src/", "deblock/src/", "yuv/src/"] {
        if let Some(i) = p.find(krate) {
            if i > 0 && p[..i].starts_with('/') {
                p = p[i..].to_string();
            }
        }
    }
    let (loc, msg) = match p.find(": ") {
        Some(i) => (&p[..i], &p[i + 2..]),
        None => (p.as_str(), ""),
    };
    let mut out = String::new();
    let mut in_num = false;
    for c in msg.chars() {
        if c.is_ascii_digit() {
            if !in_num {
                out.push('N');
            }
            in_num = true;
        } else {
            in_num = false;
            out.push(c);
        }
    }
    format!("panic@{loc}: {out}")
}

pub fn opts_from_bits(b: u8) -> DecoderOption {
    DecoderOption::from_bits_truncate(b & 3)
}

#[derive(Clone, Debug, PartialEq, Eq)]
pub enum Outcome {
    Ok,
    /// Debug string of the error, with I/O error kinds preserved.
    Err(String),
    Panic(String),
}

impl Outcome {
    pub fn is_ok(&self) -> bool {
        matches!(self, Outcome::Ok)
    }
    pub fn is_err(&self) -> bool {
        matches!(self, Outcome::Err(_))
    }
    pub fn short(&self) -> String {
        match self {
            Outcome::Ok => "Ok".into(),
            Outcome::Err(e) => format!("Err({e})"),
            Outcome::Panic(p) => format!("Panic({p})"),
        }
    }
    /// Error class without payload details.
    pub fn class(&self) -> String {
        match self {
            Outcome::Ok => "Ok".into(),
            Outcome::Err(e) => format!("Err({e})"),
            Outcome::Panic(p) => panic_class(p),
        }
    }
    pub fn is_eof_err(&self) -> bool {
        matches!(self, Outcome::Err(e) if e == "EndOfData")
    }
}

/// Error values as strings.  End-of-data is recognised through the library's own
/// public predicate (`Error::is_eof_error`), not through its representation.
pub fn err_string(e: &h263_rs::Error) -> String {
    if e.is_eof_error() {
        return "EndOfData".into();
    }
    match e {
        h263_rs::Error::UnhandledIoError(io) => format!("Io({:?})", io.kind()),
        other => format!("{other:?}"),
    }
}

/// Everything observable about one decoded picture.
#[derive(Clone, Debug, PartialEq, Eq)]
pub struct Snap {
    pub header: String,
    pub width: u16,
    pub height: u16,
    pub y: Vec<u8>,
    pub cb: Vec<u8>,
    pub cr: Vec<u8>,
    pub chroma_stride: usize,
}

impl Snap {
    pub fn digest(&self) -> u64 {
        let mut h = fnv1a(self.header.as_bytes());
        h ^= fnv1a(&self.y).rotate_left(1);
        h ^= fnv1a(&self.cb).rotate_left(2);
        h ^= fnv1a(&self.cr).rotate_left(3);
        h ^ ((self.width as u64) << 40) ^ ((self.height as u64) << 20) ^ self.chroma_stride as u64
    }
}

/// Header fields the oracles need, extracted from the (unnameable) header type.
#[derive(Clone, Debug, PartialEq, Eq)]
pub struct Hdr {
    pub tr: u16,
    pub ptype: String,
    pub quant: u8,
    pub deblock: bool,
}

macro_rules! snap_body {
    ($p:expr) => {{
        let p = $p;
        let (y, cb, cr) = p.as_yuv();
        let (w, h) = p.format().into_width_and_height().unwrap_or((0, 0));
        Snap {
            header: format!("{:?}", p.as_header()),
            width: w,
            height: h,
            y: y.to_vec(),
            cb: cb.to_vec(),
            cr: cr.to_vec(),
            chroma_stride: p.chroma_samples_per_row(),
        }
    }};
}

pub fn snap_last(st: &H263State) -> Option<Snap> {
    st.get_last_picture().map(|p| snap_body!(p))
}

pub fn snap_reference(st: &H263State) -> Option<Snap> {
    st.get_reference_picture().map(|p| snap_body!(p))
}

pub fn hdr_last(st: &H263State) -> Option<Hdr> {
    st.get_last_picture().map(|p| {
        let h = p.as_header();
        Hdr {
            tr: h.temporal_reference,
            ptype: format!("{:?}", h.picture_type),
            quant: h.quantizer,
            deblock: h.options.contains(h263_rs::PictureOption::USE_DEBLOCKER),
        }
    })
}

/// Cheap digest of the decoder's observable state (last + reference picture).
pub fn state_digest(st: &H263State) -> u64 {
    let a = snap_last(st).map(|s| s.digest()).unwrap_or(1);
    let b = snap_reference(st).map(|s| s.digest()).unwrap_or(2);
    a.wrapping_mul(0x9E37_79B9_7F4A_7C15) ^ b
}

/// One decoder instance with its current reader and pipe.
pub struct Slot {
    pub opts: u8,
    pub state: H263State,
    pub pipe: SharedPipe,
    pub reader: Reader,
    /// Set after a panic inside the decoder: its state is unspecified.
    pub poisoned: bool,
    /// Short-read knob: the source hands out at most this many bytes per read.
    pub max_chunk: usize,
}

impl Slot {
    pub fn new(opts: u8) -> Self {
        let pipe = new_pipe();
        Slot {
            opts,
            state: H263State::new(opts_from_bits(opts)),
            reader: H263Reader::from_source(SimSource::new(pipe.clone())),
            pipe,
            poisoned: false,
            max_chunk: usize::MAX,
        }
    }
    /// Swarm knob: from now on every pipe of this slot delivers short reads.
    pub fn set_max_chunk(&mut self, n: usize) {
        self.max_chunk = n.max(1);
        self.pipe.lock().unwrap().max_chunk = self.max_chunk;
    }
    pub fn sorenson(&self) -> bool {
        self.opts & 1 == 1
    }
    /// Replace reader and pipe by fresh ones (as Ruffle does per FLV tag).
    pub fn new_reader(&mut self) {
        self.pipe = new_pipe();
        self.pipe.lock().unwrap().max_chunk = self.max_chunk;
        self.reader = H263Reader::from_source(SimSource::new(self.pipe.clone()));
    }
    pub fn feed(&mut self, bytes: &[u8]) {
        self.pipe.lock().unwrap().data.extend_from_slice(bytes);
    }
    pub fn reads(&self) -> u64 {
        self.pipe.lock().unwrap().reads
    }
    pub fn undelivered(&self) -> usize {
        let p = self.pipe.lock().unwrap();
        p.data.len() - p.pos
    }
    /// Arm a source fault at the `n`-th read (1-based) counted from now.
    pub fn arm(&mut self, n: u64, kind: SrcFault) {
        let mut p = self.pipe.lock().unwrap();
        let at = p.reads + n;
        p.armed.push((at, kind));
    }
    pub fn disarm_all(&mut self) -> usize {
        let mut p = self.pipe.lock().unwrap();
        let n = p.armed.len();
        p.armed.clear();
        n
    }
    /// One decode call under `catch_unwind` with a read-step budget.
    pub fn decode(&mut self) -> Outcome {
        {
            let mut p = self.pipe.lock().unwrap();
            let remaining = (p.data.len() - p.pos) as u64;
            p.budget = p.reads + 256 + 4 * remaining + 4 * p.armed.len() as u64;
        }
        let r = guarded(|| self.state.decode_next_picture(&mut self.reader));
        {
            let mut p = self.pipe.lock().unwrap_or_else(|e| e.into_inner());
            p.budget = u64::MAX;
        }
        match r {
            Ok(Ok(())) => Outcome::Ok,
            Ok(Err(e)) => Outcome::Err(err_string(&e)),
            Err(p) => {
                self.poisoned = true;
                Outcome::Panic(p)
            }
        }
    }
    /// One decode call of ANOTHER decoder state on this slot's reader (two decoders
    /// taking turns on one reader is legal use of the API).
    pub fn decode_with(&mut self, other: &mut H263State) -> Outcome {
        {
            let mut p = self.pipe.lock().unwrap();
            let remaining = (p.data.len() - p.pos) as u64;
            p.budget = p.reads + 256 + 4 * remaining + 4 * p.armed.len() as u64;
        }
        let r = guarded(|| other.decode_next_picture(&mut self.reader));
        {
            let mut p = self.pipe.lock().unwrap_or_else(|e| e.into_inner());
            p.budget = u64::MAX;
        }
        match r {
            Ok(Ok(())) => Outcome::Ok,
            Ok(Err(e)) => Outcome::Err(err_string(&e)),
            Err(p) => Outcome::Panic(p),
        }
    }
    pub fn cleanup(&mut self) -> Outcome {
        match guarded(|| self.state.cleanup_buffers()) {
            Ok(()) => Outcome::Ok,
            Err(p) => {
                self.poisoned = true;
                Outcome::Panic(p)
            }
        }
    }
}

pub fn is_budget_panic(p: &str) -> bool {
    p.contains(BUDGET_MARKER)
}
