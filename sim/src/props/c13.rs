//! C13 — every decoded picture can be deblocked and converted to RGBA.
//! A pipeline invariant evaluated after EVERY accepted picture of the general
//! fault-injecting sessions (valid, truncated-but-accepted and corrupted-but-
//! accepted pictures alike) and of a size x quantizer sweep.

use crate::exec::*;
use crate::framework::Property;
use crate::gen::*;
use crate::plan::*;
use crate::props::c01::{count_faults, gen_session, Mix};
use crate::rng::{fnv1a, Rng};
use crate::session::*;
use crate::spec::*;
use crate::stats::Stats;
use serde_json::json;

pub struct C13;

const MIX_QUICK: Mix = Mix { input: [50, 30, 8, 8, 4], max_events: 8, max_decoders: 2, size_classes: [5, 2, 0, 4], source_faults: true, hdr_bias: false };
const MIX_THOROUGH: Mix = Mix { input: [50, 30, 8, 8, 4], max_events: 14, max_decoders: 3, size_classes: [5, 3, 1, 4], source_faults: true, hdr_bias: false };

/// The invariant itself.  Returns a violation description.
pub fn pipeline_invariant(slot: &mut Slot, st: &mut Stats) -> Option<Violation> {
    let Some(hdr) = hdr_last(&slot.state) else {
        return Some(Violation { class: "C13: no picture exposed after a successful decode".into(), detail: "decode_next_picture returned Ok but get_last_picture() is None".into() });
    };
    let r = guarded(|| {
        let p = slot.state.get_last_picture()?;
        let (w, h) = p.format().into_width_and_height()?;
        let (w, h) = (w as usize, h as usize);
        let (y, cb, cr) = p.as_yuv();
        let cspr = p.chroma_samples_per_row();
        Some((w, h, y.to_vec(), cb.to_vec(), cr.to_vec(), cspr))
    });
    let (w, h, y, cb, cr, cspr) = match r {
        Ok(Some(x)) => x,
        Ok(None) => return None,
        Err(p) => return Some(Violation { class: format!("C13: {}", panic_class(&p)), detail: format!("reading the decoded picture panicked: {p}") }),
    };
    // the property's own domain: width, height >= 1 and a quantizer with a tabulated strength
    if w == 0 || h == 0 || hdr.quant == 0 || hdr.quant > 31 {
        st.inc("outside_domain");
        return None;
    }
    st.inc("c13.pictures_judged");
    let cw = (w + 1) / 2;
    let chh = (h + 1) / 2;
    let what = format!("{w}x{h} picture, quantizer {}", hdr.quant);
    if y.len() != w * h {
        return Some(Violation { class: "C13: luma plane length is not width x height".into(), detail: format!("{what}: {} samples", y.len()) });
    }
    if cb.len() != cw * chh || cr.len() != cw * chh {
        return Some(Violation { class: "C13: chroma plane length is not ceil(w/2) x ceil(h/2)".into(), detail: format!("{what}: {} / {} samples, expected {}", cb.len(), cr.len(), cw * chh) });
    }
    if cspr != cw {
        return Some(Violation { class: "C13: chroma row length is not ceil(w/2)".into(), detail: format!("{what}: chroma_samples_per_row() = {cspr}") });
    }
    let strength = h263_rs_deblock::deblock::QUANT_TO_STRENGTH[hdr.quant as usize];
    let r = guarded(|| {
        let dy = h263_rs_deblock::deblock::deblock(&y, w, strength);
        let dcb = h263_rs_deblock::deblock::deblock(&cb, cw, strength);
        let dcr = h263_rs_deblock::deblock::deblock(&cr, cw, strength);
        (dy, dcb, dcr)
    });
    let (dy, dcb, dcr) = match r {
        Ok(x) => x,
        Err(p) => return Some(Violation { class: format!("C13: deblock {}", panic_class(&p)), detail: format!("{what}, strength {strength}: deblocking panicked: {p}") }),
    };
    if dy.len() != y.len() || dcb.len() != cb.len() || dcr.len() != cr.len() {
        return Some(Violation { class: "C13: deblocking changed a plane's length".into(), detail: what });
    }
    let r = guarded(|| h263_rs_yuv::bt601::yuv420_to_rgba(&dy, &dcb, &dcr, w));
    match r {
        Err(p) => Some(Violation { class: format!("C13: yuv420_to_rgba {}", panic_class(&p)), detail: format!("{what}: conversion panicked: {p}") }),
        Ok(rgba) => {
            if rgba.len() != 4 * w * h {
                return Some(Violation { class: "C13: RGBA output is not width x height pixels".into(), detail: format!("{what}: {} bytes", rgba.len()) });
            }
            st.distinct.insert(((w as u64) << 32) ^ ((h as u64) << 8) ^ hdr.quant as u64);
            st.states.insert(fnv1a(format!("{}/{}/{}/{}/{}", w.min(20), h.min(20), w % 8, h % 8, hdr.quant).as_bytes()));
            if h < 2 {
                st.inc("probe.fewer_than_two_rows");
            }
            if w < 10 {
                st.inc("probe.fewer_than_ten_columns");
            }
            if w % 2 == 1 || h % 2 == 1 {
                st.inc("probe.odd_dimension");
            }
            if w == 1 || h == 1 {
                st.inc("probe.one_sample_dimension");
            }
            None
        }
    }
}

/// Size x quantizer sweep: intra pictures of every width x height up to `max`
/// (Sorenson custom size), quantizers cycling through 1..31.
fn sweep(max: u16, part: u16, parts: u16) -> Session {
    let mut s = Session { note: format!("size sweep 1..={max} (part {part}/{parts})"), pics: vec![], events: vec![Ev::New { d: 0, opts: 1 }], max_chunk: 0, screen: 0 };
    let mut rng = Rng::new(0xC13 + part as u64);
    let mut cfg = GenCfg::draw(&mut rng, &[0]);
    cfg.density = 0;
    cfg.pei16 = 0;
    cfg.stuff16 = 0;
    let mut q = part as u8 % 31;
    for w in 1..=max {
        for h in 1..=max {
            if (w + h) % parts != part {
                continue;
            }
            q = q % 31 + 1;
            let mut spec = gen_picture(&mut rng, &cfg, Flavour::Sorenson { version: 0, size_code: 0 }, PType::I, w, h, 0);
            spec.quant = q;
            let (pp, _) = PlanPic::from_spec(spec, vec![], "valid picture");
            let len = pp.bytes.len();
            s.pics.push(pp);
            let pi = s.pics.len() - 1;
            s.events.push(Ev::Reader { d: 0 });
            s.events.push(Ev::Feed { d: 0, pic: pi, from: 0, to: len });
            s.events.push(Ev::Decode { d: 0 });
        }
    }
    s
}

/// One very large intra picture.
fn huge_session(w: u16, h: u16, q: u8) -> Session {
    let mut rng = Rng::new(0xC13_B16 ^ ((w as u64) << 16) ^ h as u64);
    let mut cfg = GenCfg::draw(&mut rng, &[0]);
    cfg.density = 0;
    cfg.pei16 = 0;
    cfg.stuff16 = 0;
    // every macroblock is coded (an intra picture that ends early is rejected for lack
    // of a reference): INTRA, DC only, about 7 bytes per macroblock
    let mut spec = gen_picture(&mut rng, &cfg, Flavour::Sorenson { version: 0, size_code: 1 }, PType::I, w, h, 0);
    spec.quant = q;
    let (pp, _) = PlanPic::from_spec(spec, vec![], "valid picture (very large)");
    let len = pp.bytes.len();
    Session {
        note: format!("huge picture {w}x{h}"),
        pics: vec![pp],
        events: vec![Ev::New { d: 0, opts: 1 }, Ev::Reader { d: 0 }, Ev::Feed { d: 0, pic: 0, from: 0, to: len }, Ev::Decode { d: 0 }],
        max_chunk: 0,
        screen: 1 << 27,
    }
}

fn strips(long: u16) -> Vec<Session> {
    const SHORT: [u16; 13] = [1, 2, 7, 8, 9, 10, 15, 16, 17, 18, 19, 24, 33];
    let mut out = Vec::new();
    let mut rng = Rng::new(0xC13_57);
    let mut cfg = GenCfg::draw(&mut rng, &[0]);
    cfg.density = 0;
    cfg.pei16 = 0;
    cfg.stuff16 = 0;
    for transposed in [false, true] {
        let mut s = Session { note: format!("strips up to {long} ({})", if transposed { "tall" } else { "wide" }), pics: vec![], events: vec![Ev::New { d: 0, opts: 1 }], max_chunk: 0, screen: 0 };
        let mut q = 0u8;
        for l in 41..=long {
            for sh in SHORT {
                let (w, h) = if transposed { (sh, l) } else { (l, sh) };
                q = q % 31 + 1;
                let code = if w <= 255 && h <= 255 { 0 } else { 1 };
                let mut spec = gen_picture(&mut rng, &cfg, Flavour::Sorenson { version: 0, size_code: code }, PType::I, w, h, 0);
                spec.quant = q;
                let (pp, _) = PlanPic::from_spec(spec, vec![], "valid picture");
                let len = pp.bytes.len();
                s.pics.push(pp);
                let pi = s.pics.len() - 1;
                s.events.push(Ev::Reader { d: 0 });
                s.events.push(Ev::Feed { d: 0, pic: pi, from: 0, to: len });
                s.events.push(Ev::Decode { d: 0 });
            }
        }
        out.push(s);
    }
    out
}

impl Property for C13 {
    type Plan = Session;
    const ID: &'static str = "C13";
    const LEVEL: &'static str = "exploration";
    const RULE: &'static str = "the pipeline invariant (plane sizes, chroma row length, deblock of the three planes with QUANT_TO_STRENGTH[quantizer], yuv420_to_rgba, 4*w*h output bytes, no panic with the converter's debug_assert preconditions live) is evaluated after every ACCEPTED picture of seeded fault-injecting sessions (same generator as C01 with more valid pictures: valid, truncated-but-accepted and corrupted-but-accepted pictures, size changes, all option sets) and of a sweep over every width x height in 1..=40 (quick) / 1..=96 (thorough) plus strips of every length 41..=264 (quick) / 41..=430 (thorough) against 13 short dimensions around the block / macroblock / SIMD-group boundaries, wide and tall, with quantizers cycling 1..31. evaluations = accepted pictures judged (width, height >= 1 and quantizer 1..31). Distinct non-trivial cases = distinct (width, height, quantizer) triples judged.";
    fn runs(tier: Tier) -> u64 {
        match tier {
            Tier::Quick => 60_000,
            Tier::Thorough => 1_500_000,
        }
    }
    fn generate(rng: &mut Rng, tier: Tier) -> Session {
        gen_session(rng, if tier == Tier::Quick { &MIX_QUICK } else { &MIX_THOROUGH })
    }
    fn execute(plan: &Session, st: &mut Stats) -> Option<Violation> {
        let (ev0, j0) = (st.get("evaluations"), st.get("c13.pictures_judged"));
        let (recs, v) = run_session(plan, &SessionOpts { keep_snaps: false }, st, &mut |slot, rec, st| {
            if rec.out.is_ok() {
                pipeline_invariant(slot, st)
            } else {
                None
            }
        });
        count_faults(plan, &recs, st);
        // decode calls are not C13's evaluations; the invariant counts its own
        let calls = st.get("evaluations") - ev0;
        st.add("decode_calls", calls);
        let judged = st.get("c13.pictures_judged") - j0;
        st.counters.insert("evaluations".into(), ev0 + judged);
        st.sample(|| json!({"note": plan.note, "accepted": recs.iter().filter(|r| r.is_decode && r.out.is_ok()).count(), "events": plan.events.len()}));
        v
    }
    fn shrink(plan: &Session) -> Vec<Session> {
        shrink_session(plan)
    }
    fn assumptions() -> Vec<String> {
        vec![
            "weakest fit of the claimed properties: its failure cases are reached by the size swarm, the sweep and header bit-flips rather than by schedules".into(),
            "only pictures with width, height >= 1 and header quantizer 1..31 are judged (PQUANT 0 decodes but has no tabulated strength)".into(),
            "the converter's documented preconditions are debug_assert!s and are live under the harness profile".into(),
            "a panic inside decode_next_picture itself is C01's verdict and ends the session without a C13 verdict".into(),
        ]
    }
    fn probe_names() -> Vec<&'static str> {
        vec!["fewer_than_two_rows", "fewer_than_ten_columns", "odd_dimension", "one_sample_dimension"]
    }
    fn sweeps(tier: Tier) -> Vec<Session> {
        let (max, parts) = if tier == Tier::Quick { (40, 4) } else { (96, 16) };
        let mut v: Vec<Session> = (0..parts).map(|p| sweep(max, p, parts)).collect();
        // strips: every width (height) up to 264 / 430 against a set of heights (widths)
        // chosen around the block, macroblock and SIMD-group boundaries
        let long = if tier == Tier::Quick { 264 } else { 430 };
        v.extend(strips(long));
        // a few VERY large valid pictures (beyond 2^24 samples: where f32 / u16 / u32
        // size arithmetic stops being exact); they fit in memory, so the property covers them
        let huge: &[(u16, u16)] = if tier == Tier::Quick { &[(4097, 4097)] } else { &[(4097, 4097), (4096, 4100), (8193, 2049), (2051, 8191), (5793, 5793), (16385, 1025)] };
        for (i, (w, h)) in huge.iter().enumerate() {
            v.push(huge_session(*w, *h, 1 + (i as u8 * 7) % 31));
        }
        v
    }
}
