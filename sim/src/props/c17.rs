//! C17 — decoding is deterministic and decoder instances are independent.
//! Several caller threads, each owning decoder instances, run under a BATON
//! scheduler the simulator owns: exactly one thread runs at a time, a thread
//! gives the baton up only at `SimSource::read` and at call boundaries, and the
//! successor is taken from the plan's pre-drawn schedule.  So the seed decides
//! the interleaving, it replays exactly, and it can be minimised.

use crate::exec::*;
use crate::framework::Property;
use crate::plan::*;
use crate::props::c01::{gen_session, Mix};
use crate::rng::{fnv1a, Rng};
use crate::session::SCREEN_SAMPLES;
use crate::source::YIELD_HOOK;
use crate::spec::max_declared_samples;
use crate::stats::Stats;
use serde::{Deserialize, Serialize};
use serde_json::json;
use std::sync::{Arc, Condvar, Mutex};
use std::time::Duration;

pub struct C17;

#[derive(Clone, Debug, Serialize, Deserialize)]
pub struct C17Plan {
    pub note: String,
    /// Sub-plans (single-decoder sessions, decoder index 0).
    pub subplans: Vec<Session>,
    /// Instance i runs `subplans[instances[i]]`; equal entries are replicas.
    pub instances: Vec<usize>,
    /// For each thread: the (instance, event index) steps it performs, in order.
    pub threads: Vec<Vec<(usize, usize)>>,
    /// Baton schedule: run thread `.0` for `.1` yield points, then the next entry.
    pub schedule: Vec<(usize, u32)>,
}

// ---- instance interpreter ---------------------------------------------------------------------

struct Inst {
    slot: Option<Slot>,
    digest: u64,
    calls: u64,
}

impl Inst {
    fn new() -> Self {
        Inst { slot: None, digest: 0xC17, calls: 0 }
    }
    fn mix(&mut self, x: u64) {
        self.digest = (self.digest ^ x).wrapping_mul(0x0000_0100_0000_01B3).rotate_left(23);
    }
    fn step(&mut self, s: &Session, ei: usize) {
        match &s.events[ei] {
            Ev::New { opts, .. } => {
                let mut sl = Slot::new(*opts);
                if s.max_chunk > 0 {
                    sl.set_max_chunk(s.max_chunk);
                }
                self.slot = Some(sl);
            }
            Ev::Reader { .. } => {
                if let Some(sl) = self.slot.as_mut() {
                    sl.new_reader();
                }
            }
            Ev::Feed { pic, from, to, .. } => {
                if let (Some(sl), Some(p)) = (self.slot.as_mut(), s.pics.get(*pic)) {
                    let to = (*to).min(p.bytes.len());
                    let from = (*from).min(to);
                    sl.feed(&p.bytes[from..to]);
                }
            }
            Ev::Arm { n, kind, .. } => {
                if let Some(sl) = self.slot.as_mut() {
                    sl.arm(*n, *kind);
                }
            }
            Ev::Decode { .. } => {
                if let Some(sl) = self.slot.as_mut() {
                    if sl.poisoned {
                        return;
                    }
                    let too_large = {
                        let p = sl.pipe.lock().unwrap();
                        max_declared_samples(&p.data, sl.sorenson()) > if s.screen > 0 { s.screen } else { SCREEN_SAMPLES }
                    };
                    if too_large {
                        sl.new_reader();
                        self.mix(0xE0);
                        return;
                    }
                    let o = sl.decode();
                    self.calls += 1;
                    let d = if sl.poisoned { 0 } else { state_digest(&sl.state) };
                    self.mix(fnv1a(o.class().as_bytes()));
                    self.mix(d);
                }
            }
            Ev::Cleanup { .. } => {
                if let Some(sl) = self.slot.as_mut() {
                    if sl.poisoned {
                        return;
                    }
                    let o = sl.cleanup();
                    let d = if sl.poisoned { 0 } else { state_digest(&sl.state) };
                    self.mix(fnv1a(o.class().as_bytes()));
                    self.mix(d);
                }
            }
        }
    }
}

fn run_alone(s: &Session) -> (u64, u64) {
    let mut i = Inst::new();
    for e in 0..s.events.len() {
        i.step(s, e);
    }
    (i.digest, i.calls)
}

// ---- baton scheduler ------------------------------------------------------------------------------

struct Sched {
    current: usize,
    schedule: Vec<(usize, u32)>,
    pos: usize,
    left: u32,
    alive: Vec<bool>,
    /// hash of the context-switch sequence
    trace: u64,
    switches: u64,
    yields: u64,
    progress: u64,
    degraded: u64,
}

impl Sched {
    fn pick_next(&mut self, me: usize) {
        // next slice of the schedule whose thread is alive; when the schedule is
        // exhausted fall back to the lowest alive thread (deterministic)
        loop {
            if self.pos < self.schedule.len() {
                let (t, n) = self.schedule[self.pos];
                self.pos += 1;
                let t = t % self.alive.len();
                if self.alive[t] {
                    self.current = t;
                    self.left = n.max(1);
                    break;
                }
            } else {
                let t = if self.alive[me] { me } else { self.alive.iter().position(|a| *a).unwrap_or(me) };
                self.current = t;
                self.left = u32::MAX;
                break;
            }
        }
        if self.current != me {
            self.switches += 1;
            self.trace = (self.trace ^ (self.current as u64 + 1) ^ (self.yields << 8)).wrapping_mul(0x0000_0100_0000_01B3).rotate_left(11);
        }
    }
}

type Shared = Arc<(Mutex<Sched>, Condvar)>;

fn wait_for_baton(sh: &Shared, me: usize) {
    let (m, cv) = &**sh;
    let mut g = m.lock().unwrap();
    while g.current != me {
        let seen = g.progress;
        let (ng, to) = cv.wait_timeout(g, Duration::from_secs(2)).unwrap();
        g = ng;
        if to.timed_out() && g.current != me && g.progress == seen {
            // Safety valve: the holder blocked on something the simulator does not
            // own.  Take the baton; recorded, never reported as a violation.
            g.degraded += 1;
            g.current = me;
            g.left = u32::MAX;
        }
    }
}

fn yield_point(sh: &Shared, me: usize) {
    let (m, cv) = &**sh;
    {
        let mut g = m.lock().unwrap();
        g.yields += 1;
        g.progress += 1;
        if g.current != me {
            // we lost the baton through the safety valve; just wait to get it back
        } else if g.left > 1 {
            g.left -= 1;
            return;
        } else {
            g.pick_next(me);
            if g.current == me {
                return;
            }
            cv.notify_all();
        }
    }
    wait_for_baton(sh, me);
}

fn finish(sh: &Shared, me: usize) {
    let (m, cv) = &**sh;
    let mut g = m.lock().unwrap();
    g.alive[me] = false;
    g.progress += 1;
    if g.alive.iter().any(|a| *a) && g.current == me {
        g.pick_next(me);
    }
    cv.notify_all();
}

fn viol(class: &str, detail: String) -> Option<Violation> {
    Some(Violation { class: format!("C17: {class}"), detail })
}

pub fn exec_c17(plan: &C17Plan, st: &mut Stats) -> Option<Violation> {
    let ninst = plan.instances.len();
    let nthreads = plan.threads.len();
    if ninst == 0 || nthreads == 0 {
        return None;
    }
    // (b) reference: every sub-plan alone, sequentially, on this thread
    let alone: Vec<(u64, u64)> = plan.subplans.iter().map(run_alone).collect();
    let sh: Shared = Arc::new((
        Mutex::new(Sched {
            current: plan.schedule.first().map(|s| s.0 % nthreads).unwrap_or(0),
            schedule: plan.schedule.clone(),
            pos: if plan.schedule.is_empty() { 0 } else { 1 },
            left: plan.schedule.first().map(|s| s.1.max(1)).unwrap_or(u32::MAX),
            alive: vec![true; nthreads],
            trace: 0,
            switches: 0,
            yields: 0,
            progress: 0,
            degraded: 0,
        }),
        Condvar::new(),
    ));
    let plan_arc = Arc::new(plan.clone());
    let results: Arc<Mutex<Vec<Option<(u64, u64)>>>> = Arc::new(Mutex::new(vec![None; ninst]));
    let mut handles = Vec::new();
    for t in 0..nthreads {
        let sh = sh.clone();
        let plan = plan_arc.clone();
        let results = results.clone();
        handles.push(std::thread::spawn(move || {
            let sh2 = sh.clone();
            YIELD_HOOK.with(|h| *h.borrow_mut() = Some(Box::new(move || yield_point(&sh2, t))));
            wait_for_baton(&sh, t);
            let mut insts: Vec<(usize, Inst)> = Vec::new();
            for (inst, ei) in &plan.threads[t] {
                if !insts.iter().any(|x| x.0 == *inst) {
                    insts.push((*inst, Inst::new()));
                }
                let sp = &plan.subplans[plan.instances[*inst] % plan.subplans.len()];
                if *ei < sp.events.len() {
                    let ix = insts.iter().position(|x| x.0 == *inst).unwrap();
                    insts[ix].1.step(sp, *ei);
                }
                yield_point(&sh, t); // call boundary
            }
            YIELD_HOOK.with(|h| *h.borrow_mut() = None);
            {
                let mut r = results.lock().unwrap();
                for (i, inst) in insts {
                    if i < r.len() {
                        r[i] = Some((inst.digest, inst.calls));
                    }
                }
            }
            finish(&sh, t);
        }));
    }
    let mut thread_panicked = false;
    for h in handles {
        if h.join().is_err() {
            thread_panicked = true;
        }
    }
    if thread_panicked {
        return Some(Violation { class: "HARNESS-PANIC".into(), detail: format!("a simulated caller thread panicked outside a guarded call: {}", take_panic()) });
    }
    let (trace, switches, yields, degraded) = {
        let g = sh.0.lock().unwrap();
        (g.trace, g.switches, g.yields, g.degraded)
    };
    st.add("steps", yields);
    st.add("context_switches", switches);
    st.add("degraded_determinism", degraded);
    st.states.insert(trace ^ fnv1a(&(nthreads as u64).to_le_bytes()));
    if switches >= 4 {
        st.inc("probe.schedules_with_4_or_more_switches");
    }
    let res = results.lock().unwrap().clone();
    let mut calls = 0;
    for (i, r) in res.iter().enumerate() {
        let sp = plan.instances[i] % plan.subplans.len();
        let Some((d, c)) = r else {
            // an instance no thread ran: nothing to compare
            continue;
        };
        calls += c;
        st.h(*d);
        // (b) isolation: interleaved == alone
        if *d != alone[sp].0 {
            return viol(
                "an instance behaves differently when other instances run interleaved with it",
                format!("instance {i} (sub-plan {sp}, {} calls): history digest {d:016x} under the schedule, {:016x} when run alone; {nthreads} threads, {switches} context switches", c, alone[sp].0),
            );
        }
        // (a) replicas agree
        for (j, r2) in res.iter().enumerate().skip(i + 1) {
            if plan.instances[j] % plan.subplans.len() == sp {
                if let Some((d2, _)) = r2 {
                    if d2 != d {
                        return viol("replicas fed the same history disagree", format!("instances {i} and {j} (sub-plan {sp}): {d:016x} vs {d2:016x}"));
                    }
                    st.inc("probe.replica_pairs_compared");
                }
            }
        }
    }
    st.add("evaluations", calls);
    if calls > 0 && switches > 0 {
        st.distinct.insert(trace ^ fnv1a(serde_json::to_string(&plan.threads).unwrap_or_default().as_bytes()));
    }
    None
}

const MIX_INHERIT: Mix = Mix { input: [25, 5, 60, 5, 5], max_events: 6, max_decoders: 1, size_classes: [12, 4, 1, 6], source_faults: true, hdr_bias: true };
const MIX_SUB: Mix = Mix { input: [50, 20, 12, 10, 8], max_events: 6, max_decoders: 1, size_classes: [12, 4, 1, 6], source_faults: true, hdr_bias: false };

pub fn gen_c17(rng: &mut Rng, tier: Tier) -> C17Plan {
    let nthreads = 2 + rng.usize(3);
    let nsub = 1 + rng.usize(3);
    // One world in six is an INHERITANCE world: standard-mode decoders fed PLUSPTYPE
    // headers that restate the optional part (OPPTYPE, arbitrary mode bits) or rely on
    // what was carried over (UFEP = 000, often on a decoder that holds no picture yet).
    // What such a call answers must depend on its own instance's history only, whatever
    // headers other instances parse in between (process-wide parse state).
    let inherit = rng.chance(1, 6);
    let mix = if inherit { &MIX_INHERIT } else { &MIX_SUB };
    // One world in 40 puts the replicated instance under STORE PRESSURE (a few large or
    // dozens of small valid pictures with distinct temporal references): whatever a decoder
    // keeps per instance must not make replicas diverge once it holds many / large entries
    // (eviction by hash-map iteration order, size thresholds).
    let pressure = !inherit && rng.chance(1, 40);
    let subplans: Vec<Session> = (0..nsub).map(|k| if pressure && k == 0 { crate::props::c01::gen_store_pressure_session(rng) } else { gen_session(rng, mix) }).collect();
    // A "sibling" of sub-plan 0: same sizes, temporal references, picture types,
    // macroblock structure and vectors, but different sample content (other
    // INTRADC values).  Any cache or scratch state keyed by header fields instead
    // of by instance shows up as a difference between an instance run alone and
    // the same instance interleaved with its sibling.
    let mut subplans = subplans;
    let mut sibling: Option<usize> = None;
    if rng.chance(2, 3) {
        let mut sib = subplans[0].clone();
        let mut changed = false;
        for p in sib.pics.iter_mut() {
            if let Some(spec) = p.spec.as_mut() {
                for mb in spec.mbs.iter_mut() {
                    if let crate::spec::MbSpec::Coded { kind, blocks, .. } = mb {
                        if crate::spec::kind_is_intra(*kind) {
                            for b in blocks.iter_mut() {
                                let mut v = rng.byte();
                                if v == 0 || v == 128 {
                                    v = 77;
                                }
                                b.dc = v;
                                changed = true;
                            }
                        }
                    }
                }
                p.rebuild();
            }
        }
        if changed {
            sib.note = format!("sibling of sub-plan 0: {}", sib.note);
            subplans.push(sib);
            sibling = Some(subplans.len() - 1);
        }
    }
    // instances: sub-plan 0 is replicated 2-3 times, the others once or twice
    let mut instances = vec![0; 2 + rng.usize(2)];
    if let Some(sb) = sibling {
        instances.insert(1, sb); // instance 1 is the sibling
    }
    for s in 1..nsub {
        instances.push(s);
        if rng.chance(1, 4) {
            instances.push(s);
        }
    }
    let max_inst = if tier == Tier::Quick { 6 } else { 8 };
    instances.truncate(max_inst);
    // place instances on threads (at least the first two replicas on different threads)
    let mut owner: Vec<usize> = (0..instances.len()).map(|i| if i < 2 { i % nthreads } else { rng.usize(nthreads) }).collect();
    if sibling.is_some() {
        // the sibling shares a thread with instance 0 half of the time
        if rng.bool() {
            owner[1] = owner[0];
        }
    } else if rng.chance(1, 8) {
        owner[1] = owner[0]; // replicas on the same thread, interleaved call by call
    }
    // per-thread step lists: random merge of its instances' event sequences
    let mut threads: Vec<Vec<(usize, usize)>> = vec![Vec::new(); nthreads];
    for t in 0..nthreads {
        let mine: Vec<usize> = (0..instances.len()).filter(|i| owner[*i] == t).collect();
        let mut next: Vec<usize> = vec![0; mine.len()];
        loop {
            let open: Vec<usize> = (0..mine.len()).filter(|k| next[*k] < subplans[instances[mine[*k]]].events.len()).collect();
            if open.is_empty() {
                break;
            }
            let k = *rng.pick(&open);
            // keep Feed..Decode groups together most of the time
            let burst = 1 + rng.usize(4);
            for _ in 0..burst {
                if next[k] < subplans[instances[mine[k]]].events.len() {
                    threads[t].push((mine[k], next[k]));
                    next[k] += 1;
                }
            }
        }
    }
    // schedule
    let nsl = 4 + rng.usize(40);
    let style = rng.below(4);
    let schedule: Vec<(usize, u32)> = (0..nsl)
        .map(|_| {
            let len = match style {
                0 => 1 + rng.below(3) as u32,
                1 => 1 + rng.below(40) as u32,
                2 => *rng.pick(&[1u32, 2, 5, 17, 60, 300]),
                _ => 1 + rng.below(8) as u32,
            };
            (rng.usize(nthreads), len)
        })
        .collect();
    C17Plan {
        note: format!("{}{nthreads} threads, {} instances ({} sub-plans{}), {} schedule slices (style {style})", if inherit { "INHERITANCE world (PLUSPTYPE headers with OPPTYPE mode bits / UFEP=000), " } else if pressure { "STORE-PRESSURE world, " } else { "" }, instances.len(), subplans.len(), if sibling.is_some() { ", one a content-only sibling of sub-plan 0" } else { "" }, schedule.len()),
        subplans,
        instances,
        threads,
        schedule,
    }
}

impl Property for C17 {
    type Plan = C17Plan;
    const ID: &'static str = "C17";
    const LEVEL: &'static str = "exploration";
    const CROSS_PROCESS_RUNS: u64 = 6000;
    const RULE: &'static str = "seeded worlds of 2-4 caller threads owning 3-8 decoder instances (at least two replicas fed the same history, the others unrelated histories including corrupted inputs and source faults that make their decoder fail; one world in six is an inheritance world of standard-mode decoders fed PLUSPTYPE headers that restate OPPTYPE with arbitrary mode bits or rely on carried-over context with UFEP=000, and plain PTYPE headers with optional-mode bits set; one world in 40 puts the replicated instance under store pressure: 3-8 valid pictures of up to 704x576 or 36-80 small ones with distinct temporal references), executed under the simulator's baton scheduler: one thread runs at a time, pre-emption points are every source read and every call boundary, the successor comes from the plan's schedule. Oracles: replicas agree; every instance's history digest (every result and every state digest) equals the digest of the same history run alone and sequentially; the same runs executed in two further fresh processes give identical digests (per-process hash seeds, addresses, lazy statics first used from a non-main thread). evaluations = decode calls made under the scheduler. A case is non-trivial if the schedule actually switched threads while decode calls were in flight; distinct by (context-switch sequence hash, thread step lists).";
    fn runs(tier: Tier) -> u64 {
        match tier {
            Tier::Quick => 24_000,
            Tier::Thorough => 800_000,
        }
    }
    fn generate(rng: &mut Rng, tier: Tier) -> C17Plan {
        gen_c17(rng, tier)
    }
    fn execute(plan: &C17Plan, st: &mut Stats) -> Option<Violation> {
        st.sample(|| json!({"note": plan.note, "instances": plan.instances, "threads": plan.threads.iter().map(|t| t.len()).collect::<Vec<_>>(), "schedule": plan.schedule.iter().take(12).collect::<Vec<_>>()}));
        if plan.note.starts_with("STORE-PRESSURE") {
            st.inc("probe.store_pressure_world");
        }
        if plan.note.starts_with("INHERITANCE") {
            st.inc("probe.inheritance_world");
            let pics = || plan.subplans.iter().flat_map(|s| s.pics.iter()).filter_map(|p| p.spec.as_ref());
            let n0 = pics().filter(|s| matches!(&s.flavour, crate::spec::Flavour::StdPlus { hdr: Some(h), .. } if h.ufep0)).count();
            let n1 = pics().filter(|s| matches!(&s.flavour, crate::spec::Flavour::StdPlus { hdr: Some(h), .. } if !h.ufep0 && h.modes != 0)).count();
            st.add("probe.ufep0_headers_in_inheritance_worlds", n0 as u64);
            st.add("probe.opptype_headers_with_mode_bits_in_inheritance_worlds", n1 as u64);
        }
        exec_c17(plan, st)
    }
    fn shrink(plan: &C17Plan) -> Vec<C17Plan> {
        let mut out = Vec::new();
        // fewer schedule slices, merged slices
        for sch in drop_chunks(&plan.schedule) {
            let mut c = plan.clone();
            c.schedule = sch;
            out.push(c);
        }
        // drop whole threads
        for t in 0..plan.threads.len() {
            if plan.threads.len() > 1 {
                let mut c = plan.clone();
                c.threads[t].clear();
                out.push(c);
            }
        }
        // drop steps of a thread (from the end)
        for t in 0..plan.threads.len() {
            let n = plan.threads[t].len();
            for keep in [n / 2, n.saturating_sub(1)] {
                if keep < n {
                    let mut c = plan.clone();
                    c.threads[t].truncate(keep);
                    out.push(c);
                }
            }
        }
        out
    }
    fn assumptions() -> Vec<String> {
        vec![
            "the baton scheduler interleaves at source reads and call boundaries only; finer interleavings and memory-model effects are examined by the Miri many-seeds layer (thorough tier), at Miri's speed".into(),
            "real OS threads, so thread_local! and Once inside the code under test behave as in production; exactly one thread runs at a time".into(),
            "if the baton holder neither yields nor finishes within 2 s the scheduler hands the baton on and counts degraded_determinism; this alone is never a violation".into(),
            "H263State is auto-Send (asserted at compile time in the harness)".into(),
        ]
    }
    fn probe_names() -> Vec<&'static str> {
        vec!["replica_pairs_compared", "schedules_with_4_or_more_switches", "store_pressure_world", "inheritance_world", "ufep0_headers_in_inheritance_worlds", "opptype_headers_with_mode_bits_in_inheritance_worlds"]
    }
}

#[allow(dead_code)]
fn assert_send() {
    fn is_send<T: Send>() {}
    is_send::<h263_rs::H263State>();
    is_send::<crate::exec::Slot>();
}
