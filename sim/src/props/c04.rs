//! C04 — the reference picture is always the last non-disposable decoded
//! picture.  Histories over {I, P, disposable P, rejected picture, clean-up}
//! with arbitrary temporal references, checked after every event against the
//! reference-management model M (last / reference snapshots).

use crate::exec::*;
use crate::framework::Property;
use crate::gen::*;
use crate::plan::*;
use crate::rng::{fnv1a, Rng};
use crate::source::SrcFault;
use crate::spec::*;
use crate::stats::Stats;
use serde::{Deserialize, Serialize};
use serde_json::json;

pub struct C04;

#[derive(Clone, Debug, PartialEq, Eq, Serialize, Deserialize)]
pub enum Step {
    /// Deliver picture `pic` on a fresh reader and decode; `io_fault`: arm a
    /// hard source fault at that read (the call must then fail).
    Pic { pic: usize, io_fault: Option<(u64, SrcFault)> },
    Cleanup,
}

#[derive(Clone, Debug, Serialize, Deserialize)]
pub struct C04Plan {
    pub note: String,
    pub opts: u8,
    pub pics: Vec<PlanPic>,
    pub steps: Vec<Step>,
}

fn viol(class: &str, detail: String) -> Option<Violation> {
    Some(Violation { class: format!("C04: {class}"), detail })
}

fn mb_equal(a: &Snap, b: &Snap, mx: usize, my: usize) -> bool {
    let w = a.width as usize;
    let h = a.height as usize;
    for y in my * 16..(my * 16 + 16).min(h) {
        for x in mx * 16..(mx * 16 + 16).min(w) {
            if a.y[x + y * w] != b.y[x + y * w] {
                return false;
            }
        }
    }
    let cw = a.chroma_stride;
    let ch = if cw > 0 { a.cb.len() / cw } else { 0 };
    for y in my * 8..(my * 8 + 8).min(ch) {
        for x in mx * 8..(mx * 8 + 8).min(cw) {
            if a.cb[x + y * cw] != b.cb[x + y * cw] || a.cr[x + y * cw] != b.cr[x + y * cw] {
                return false;
            }
        }
    }
    true
}

fn same_shape(a: &Snap, b: &Snap) -> bool {
    a.width == b.width && a.height == b.height && a.y.len() == b.y.len() && a.cb.len() == b.cb.len() && a.chroma_stride == b.chroma_stride
}

fn ptype_name(p: PType) -> &'static str {
    match p {
        PType::I => "IFrame",
        PType::P => "PFrame",
        PType::Disposable => "DisposablePFrame",
        PType::Reserved3 => "Reserved(3)",
    }
}

/// Rebuild "a decoder in the same state" by feeding a fresh decoder every
/// picture the real one accepted so far.
/// One call made to the decoder under test: the bytes fed, the armed I/O fault,
/// or a clean-up.
#[derive(Clone)]
enum Call {
    Pic(Vec<u8>, Option<(u64, SrcFault)>),
    Cleanup,
}

/// "A decoder in the same state": a fresh decoder taken through exactly the same
/// sequence of calls (accepted AND rejected pictures, faults, clean-ups), so that
/// any hidden per-instance state evolves identically.
fn replay_decoder(opts: u8, calls: &[Call]) -> Option<Slot> {
    let mut s = Slot::new(opts);
    for c in calls {
        match c {
            Call::Cleanup => {
                let _ = s.cleanup();
            }
            Call::Pic(b, io) => {
                s.new_reader();
                s.feed(b);
                if let Some((n, k)) = io {
                    s.arm(*n, *k);
                }
                if let Outcome::Panic(_) = s.decode() {
                    return None;
                }
                s.disarm_all();
            }
        }
    }
    Some(s)
}

pub fn exec_c04(plan: &C04Plan, st: &mut Stats) -> Option<Violation> {
    let mut slot = Slot::new(plan.opts);
    // model M
    let mut m_last: Option<Snap> = None;
    let mut m_ref: Option<Snap> = None;
    let mut m_ref_name = String::from("none");
    // every accepted picture, for attribution: (name, snapshot, disposable)
    let mut gallery: Vec<(String, Snap)> = Vec::new();
    let mut calls: Vec<Call> = Vec::new();
    // Standard mode only: once a corrupted picture has been accepted, its header
    // (format, aspect ratio, modes) is what later headers are compared with, and
    // the decoder answers any difference with "unimplemented".  From then on a
    // rejection of a valid picture is not judged (acceptance still is).
    let mut tainted = false;
    let mut deferred: Vec<Clause3> = Vec::new();
    // accepted non-disposable pictures since (and including) the last accepted intra
    // picture: all a decoder needs in order to hold the model's reference
    let mut essential: Vec<Vec<u8>> = Vec::new();
    let mut lost: Vec<LostRef> = Vec::new();
    for (si, step) in plan.steps.iter().enumerate() {
        st.add("steps", 1);
        let before = snap_last(&slot.state);
        if before != m_last {
            return viol("most recent picture is not the last successfully decoded one", format!("before step {si}: get_last_picture() differs from the model's last picture"));
        }
        match step {
            Step::Cleanup => {
                if let Outcome::Panic(_) = slot.cleanup() {
                    st.inc("panic_not_judged_here"); // a crash is C01's verdict
                    return None;
                }
                st.inc("cleanups");
                calls.push(Call::Cleanup);
                st.states.insert(fnv1a(format!("cleanup/{}/{}", m_ref.is_some(), m_last != m_ref).as_bytes()));
                if snap_last(&slot.state) != m_last {
                    return viol("clean-up changed the most recent picture", format!("step {si}"));
                }
            }
            Step::Pic { pic, io_fault } => {
                let p = &plan.pics[*pic];
                if max_declared_samples(&p.bytes, plan.opts & 1 == 1) > crate::session::SCREEN_SAMPLES {
                    st.inc("excluded_too_large");
                    continue;
                }
                slot.new_reader();
                slot.feed(&p.bytes);
                if let Some((n, k)) = io_fault {
                    slot.arm(*n, *k);
                }
                let calls_before = calls.len();
                calls.push(Call::Pic(p.bytes.clone(), *io_fault));
                let o = slot.decode();
                let fired = slot.disarm_all() == 0 && io_fault.is_some();
                if fired {
                    st.inc("fault.src_io_error.fired");
                }
                for t in &p.transit {
                    st.inc(&format!("fault.{}.fired", t.name()));
                }
                st.inc("evaluations");
                st.hs(&o.class());
                if let Outcome::Panic(_) = &o {
                    st.inc("panic_not_judged_here"); // a crash is C01's verdict; the state is unknown now
                    return None;
                }
                let clean = p.is_clean_valid() && !fired;
                let spec = p.spec.as_ref();
                let name = format!("#{si} {}", p.note);
                let tr_eq_ref = m_ref.as_ref().map(|r| r.header.contains(&format!("temporal_reference: {},", spec.map(|s| s.tr).unwrap_or(0)))).unwrap_or(false);
                st.states.insert(fnv1a(
                    format!("{}/{}/{}/{}/{}", m_ref.is_some(), m_last != m_ref, tr_eq_ref, spec.map(|s| ptype_name(s.ptype)).unwrap_or("raw"), o.is_ok()).as_bytes(),
                ));
                if !o.is_ok() {
                    st.inc("rejected_calls");
                    // clause 1: a rejected call changes nothing
                    if snap_last(&slot.state) != m_last {
                        return viol("most recent picture changed by a rejected call", format!("step {si} ({}), {}", p.note, o.short()));
                    }
                    if clean {
                        let s = spec.unwrap();
                        let needs_ref = s.ptype != PType::I && s.mbs.iter().any(|mb| !matches!(mb, MbSpec::Coded { kind, .. } if kind_is_intra(*kind)));
                        if needs_ref && m_ref.is_none() {
                            st.inc("probe.prediction_without_reference_rejected");
                            continue; // clause 4: rejection is what the statement asks for
                        }
                        if s.ptype == PType::Disposable {
                            // clause 3: "decoded like a predicted picture" (evaluated after the
                            // history, on another thread, so that the second decoder instance it
                            // needs cannot perturb the decoder under test: that would be C17's business)
                            let mut ps = s.clone();
                            ps.ptype = PType::P;
                            deferred.push(Clause3 { step: si, note: p.note.clone(), accepted: calls_before, p_variant: encode(&ps).0, disposable_result: None, err: o.short() });
                        }
                        // Whether a valid picture is accepted at all is C02/C03's business, not
                        // C04's.  But a predicted picture that is rejected HERE although a fresh
                        // decoder holding nothing but the model's reference (the accepted
                        // non-disposable pictures since the last intra picture) accepts it was
                        // rejected because disposable pictures, rejected pictures or clean-ups
                        // altered the reference: that is C04.  Evaluated after the history.
                        if !tainted && m_ref.as_ref().map(|r| (r.width, r.height) == (s.width, s.height)).unwrap_or(false) {
                            st.inc("valid_picture_rejected");
                            if s.ptype != PType::I && lost.len() < 4 {
                                lost.push(LostRef { step: si, note: format!("{}: {}", p.note, o.short()), chain: essential.clone(), bytes: p.bytes.clone() });
                            }
                        }
                    }
                    continue;
                }
                // accepted
                st.inc("accepted_calls");
                let (now, hdr) = match (snap_last(&slot.state), hdr_last(&slot.state)) {
                    (Some(n), Some(h)) => (n, h),
                    _ => return viol("no most recent picture after a successful decode", format!("step {si} ({}): the call returned Ok but get_last_picture() is None", p.note)),
                };
                let disposable = hdr.ptype == "DisposablePFrame";
                if clean {
                    let s = spec.unwrap();
                    // clause 1: the picture reported as most recent is the one just decoded
                    if hdr.tr != s.tr as u16 || hdr.ptype != ptype_name(s.ptype) || hdr.quant != s.quant || (s.is_sorenson() && hdr.deblock != s.deblock) || (now.width, now.height) != (s.width, s.height) {
                        return viol(
                            "most recent picture does not carry the header just decoded",
                            format!("step {si}: sent TR {} type {} quant {} {}x{}, get_last_picture() reports {:?} {}x{}", s.tr, ptype_name(s.ptype), s.quant, s.width, s.height, hdr, now.width, now.height),
                        );
                    }
                    if s.ptype != PType::I {
                        let needs_ref = s.mbs.iter().any(|mb| !matches!(mb, MbSpec::Coded { kind, .. } if kind_is_intra(*kind)));
                        if needs_ref && m_ref.is_none() {
                            return viol("predicted picture accepted although no reference exists", format!("step {si} ({})", p.note));
                        }
                        // clause 2: not-coded macroblocks are copies of the model's reference
                        if let Some(r) = &m_ref {
                            if same_shape(r, &now) {
                                let cols = s.mb_cols();
                                for (i, mb) in s.mbs.iter().enumerate() {
                                    if *mb != MbSpec::NotCoded {
                                        continue;
                                    }
                                    let (mx, my) = (i % cols, i / cols);
                                    let others_differ = gallery.iter().any(|(_, g)| same_shape(g, r) && !mb_equal(g, r, mx, my));
                                    if others_differ {
                                        st.inc("probe.discriminating_copy_checked");
                                        st.distinct.insert(fnv1a(&p.bytes) ^ (i as u64) << 48 ^ fnv1a(m_ref_name.as_bytes()));
                                    }
                                    if !mb_equal(&now, r, mx, my) {
                                        // C04 is about WHICH picture is used.  The alarm is raised only if
                                        // the macroblock is positively a copy of another decoded picture; a
                                        // macroblock that equals none of them is a reconstruction defect
                                        // (C03's statement about not-coded macroblocks), not judged here.
                                        let Some(culprit) = gallery.iter().rev().find(|(_, g)| same_shape(g, &now) && mb_equal(&now, g, mx, my)).map(|(n, _)| n.clone()) else {
                                            st.inc("copy_mismatch_unattributed_not_judged");
                                            continue;
                                        };
                                        return viol(
                                            "predicted from a picture that is not the last non-disposable one",
                                            format!("step {si} ({}): not-coded macroblock ({mx},{my}) is not a copy of the reference [{m_ref_name}]; it equals [{culprit}]", p.note),
                                        );
                                    }
                                }
                            }
                        }
                    }
                    if s.ptype == PType::Disposable {
                        st.inc("probe.disposable_accepted");
                        // clause 3, deferred (see above)
                        let mut ps = s.clone();
                        ps.ptype = PType::P;
                        deferred.push(Clause3 { step: si, note: p.note.clone(), accepted: calls_before, p_variant: encode(&ps).0, disposable_result: Some((now.y.clone(), now.cb.clone(), now.cr.clone())), err: String::new() });
                    }
                } else {
                    st.inc("corrupted_or_faulted_picture_accepted");
                    if plan.opts & 1 == 0 {
                        tainted = true;
                    }
                }
                if hdr.ptype == "IFrame" {
                    essential.clear();
                }
                if !disposable {
                    essential.push(p.bytes.clone());
                }
                // model transition (C04 rule), from the REAL decoder's observable output
                if !disposable {
                    m_ref = Some(now.clone());
                    m_ref_name = name.clone();
                }
                m_last = Some(now.clone());
                // keep one entry per distinct content (pure copies are identical to their source)
                if !gallery.iter().rev().take(64).any(|(_, g)| *g == now) {
                    gallery.push((name, now));
                }

                if m_ref.is_some() && m_last != m_ref {
                    st.inc("probe.last_is_disposable");
                    if tr_eq_ref {
                        st.inc("probe.disposable_tr_equals_reference_tr");
                    }
                }
            }
        }
    }
    if !lost.is_empty() {
        let opts = plan.opts;
        let lost2 = lost.clone();
        let verdicts = std::thread::spawn(move || {
            lost2
                .iter()
                .map(|l| {
                    let mut s = Slot::new(opts);
                    for b in &l.chain {
                        s.new_reader();
                        s.feed(b);
                        if !s.decode().is_ok() {
                            return false;
                        }
                    }
                    s.new_reader();
                    s.feed(&l.bytes);
                    s.decode().is_ok()
                })
                .collect::<Vec<bool>>()
        })
        .join()
        .unwrap_or_default();
        for (l, accepted_by_minimal) in lost.iter().zip(verdicts.iter()) {
            if *accepted_by_minimal {
                return viol(
                    "predicted picture rejected although the last non-disposable picture should be its reference",
                    format!("step {} ({}); a fresh decoder given only the {} accepted non-disposable picture(s) since the last intra picture accepts it: the reference was lost or altered by the disposable / rejected pictures or clean-ups in between", l.step, l.note, l.chain.len()),
                );
            }
            st.inc("valid_picture_rejected_also_by_a_minimal_decoder_not_judged");
        }
    }
    if deferred.is_empty() || calls.len() > 3000 {
        return None;
    }
    // long histories: the same-state decoder costs a replay of the whole accepted
    // history per disposable picture; keep the first few and the last one
    if deferred.len() > 6 {
        let last = deferred.pop().unwrap();
        deferred.truncate(5);
        deferred.push(last);
    }
    // clause 3 on a fresh thread: fresh decoders fed the accepted history, then the
    // same bytes marked P
    let opts = plan.opts;
    let acc = calls.clone();
    let res = std::thread::spawn(move || {
        let mut out: Vec<(usize, String, Option<bool>)> = Vec::new(); // (step, note, Some(planes equal) / None = P variant not accepted)
        for d in &deferred {
            let verdict = match replay_decoder(opts, &acc[..d.accepted]) {
                None => None,
                Some(mut r) => {
                    r.new_reader();
                    r.feed(&d.p_variant);
                    if r.decode().is_ok() {
                        match (&d.disposable_result, snap_last(&r.state)) {
                            (Some((y, cb, cr)), Some(rs)) => Some(rs.y == *y && rs.cb == *cb && rs.cr == *cr),
                            (None, _) => Some(false), // D was rejected but its P variant decodes
                            _ => None,
                        }
                    } else {
                        None
                    }
                }
            };
            out.push((d.step, if d.disposable_result.is_some() { d.note.clone() } else { format!("{}: {}", d.note, d.err) }, verdict));
        }
        (out, deferred)
    })
    .join();
    let (out, deferred) = match res {
        Ok(x) => x,
        Err(_) => return None,
    };
    for ((step, note, verdict), d) in out.iter().zip(deferred.iter()) {
        match (verdict, d.disposable_result.is_some()) {
            (Some(true), true) => st.inc("probe.disposable_equals_p_variant"),
            (Some(false), true) => return viol("disposable picture not decoded like a predicted picture", format!("step {step} ({note}): planes differ from the same picture marked P")),
            (Some(_), false) => {
                return viol(
                    "disposable picture rejected although the same picture marked as predicted is accepted",
                    format!("step {step} ({note}); the same bytes with the type field set to P decode in the same state"),
                )
            }
            (None, _) => {}
        }
    }
    None
}

#[derive(Clone)]
struct LostRef {
    step: usize,
    note: String,
    chain: Vec<Vec<u8>>,
    bytes: Vec<u8>,
}

struct Clause3 {
    step: usize,
    note: String,
    /// number of accepted pictures that precede it
    accepted: usize,
    p_variant: Vec<u8>,
    /// planes of the accepted disposable picture, or None if it was rejected
    disposable_result: Option<(Vec<u8>, Vec<u8>, Vec<u8>)>,
    err: String,
}

// ---- generation -------------------------------------------------------------------------------

/// A predicted / disposable picture made for attribution: a random subset of
/// macroblocks intra with fresh DC values (signature), some inter, the rest not coded.
fn gen_signed_p(rng: &mut Rng, cfg: &GenCfg, fl: Flavour, ptype: PType, w: u16, h: u16, tr: u8, style: u8) -> PicSpec {
    let mut c = cfg.clone();
    c.mb_weights = match style {
        0 => [1, 0, 0, 0, 0, 0, 0],     // pure copy: a probe of the reference
        1 => [6, 0, 0, 0, 3, 0, 0],     // copies + intra signatures
        2 => [4, 3, 1, 1, 2, 1, 1],     // everything
        4 => [0, 0, 0, 0, 1, 0, 0],     // intra only: content of its own, whatever the reference
        _ => [0, 3, 1, 1, 2, 1, 0],     // no not-coded macroblock at all
    };
    c.stuff16 = 0;
    c.max_coef_sum = 0;
    c.quant_style = 0;
    gen_picture(rng, &c, fl, ptype, w, h, tr)
}

pub fn gen_c04(rng: &mut Rng, tier: Tier) -> C04Plan {
    let opts = if rng.chance(3, 4) { 1 | (rng.below(2) as u8) << 1 } else { rng.below(2) as u8 * 2 };
    let cfg = GenCfg::for_opts(rng, opts);
    let class = if cfg.flavour == 3 { 0 } else { *rng.pick(&[0u8, 0, 1, 3]) };
    let (w, h) = gen_size(rng, class);
    let (fl, w, h) = flavour_for(rng, &cfg, w, h);
    let (mut fl, mut w, mut h) = (fl, w, h);
    let sor = cfg.is_sorenson();
    // one run in 150 is a LONG history: more than 256 pictures on one decoder, so the
    // 8-bit temporal reference wraps around while one reference may stay in use
    let long = rng.chance(1, 150);
    let n = if long { 258 + rng.usize(60) } else { 2 + rng.usize(if tier == Tier::Quick { 9 } else { 15 }) };
    let tr_policy = if long { *rng.pick(&[0u64, 0, 4]) } else { rng.below(6) };
    let (w, h) = if long { (w.min(24), h.min(24)) } else { (w, h) };
    let (mut fl, mut w, mut h) = if long { flavour_for(rng, &cfg, w, h) } else { (fl, w, h) };
    let mut tr = rng.byte();
    let mut ref_tr: Option<u8> = None;
    let mut last_tr: Option<u8> = None;
    let mut plan = C04Plan { note: String::new(), opts, pics: Vec::new(), steps: Vec::new() };
    let mut have_ref = false;
    let start_without_i = rng.chance(1, 12);
    for i in 0..n {
        tr = match tr_policy {
            0 => tr.wrapping_add(1),
            1 => rng.byte(),
            2 => ref_tr.unwrap_or(tr),                      // always equal to the reference's
            3 => {
                if rng.bool() { last_tr.unwrap_or(tr) } else { tr.wrapping_add(1) }
            }
            4 => {
                if i == 0 { 254 } else { tr.wrapping_add(1) } // wraps 255 -> 0
            }
            _ => {
                match rng.below(4) {
                    0 => ref_tr.unwrap_or(tr),
                    1 => last_tr.unwrap_or(tr),
                    _ => tr.wrapping_add(1),
                }
            }
        };
        let mut r = rng.below(100);
        if long && i > 0 {
            // mostly disposable and pure-copy pictures, so that one reference lives through the wrap
            r = *rng.pick(&[25u64, 30, 35, 38, 45, 50, 80, 3, 95]);
        }
        if r < 8 {
            plan.steps.push(Step::Cleanup);
            if rng.chance(1, 4) {
                for _ in 0..2 + rng.usize(8) {
                    plan.steps.push(Step::Cleanup); // many clean-ups in a row
                }
            }
            continue;
        }
        let first = i == 0 && !start_without_i;
        // the same size may be written with another (equivalent) size code in every picture
        let flq = requalify(rng, &fl, w, h);
        let (spec, note, transit, io): (PicSpec, String, Vec<Transit>, Option<(u64, SrcFault)>) = if first || (!have_ref && r < 60) || r < 22 {
            if sor && !first && rng.chance(1, 6) {
                // a size change, valid at an intra picture (Sorenson mode; standard mode
                // answers a format change with "unimplemented")
                let (nw, nh) = gen_size(rng, class);
                let (nfl, nw, nh) = flavour_for(rng, &cfg, nw, nh);
                fl = nfl;
                w = nw;
                h = nh;
            }
            let flq = requalify(rng, &fl, w, h);
            let s = gen_textured_intra(rng, &cfg, flq.clone(), w, h, tr);
            (s, "I".into(), vec![], None)
        } else if r < 40 && sor {
            let style = rng.below(4) as u8;
            (gen_signed_p(rng, &cfg, flq.clone(), PType::Disposable, w, h, tr, style), format!("D (style {style})"), vec![], None)
        } else if r < 75 {
            let style = *rng.pick(&[0u8, 0, 1, 1, 2, 3]);
            (gen_signed_p(rng, &cfg, flq.clone(), PType::P, w, h, tr, style), format!("P (style {style})"), vec![], None)
        } else if r < 90 {
            // rejected picture: corrupted in transit
            let pt = *rng.pick(if sor { &[PType::I, PType::P, PType::Disposable][..] } else { &[PType::I, PType::P][..] });
            let s = if pt == PType::I { gen_textured_intra(rng, &cfg, flq.clone(), w, h, tr) } else { gen_signed_p(rng, &cfg, flq.clone(), pt, w, h, tr, 2) };
            let (b, m) = encode(&s);
            let t = match rng.below(3) {
                0 => vec![Transit::Truncate { len: rng.usize((m.header_end / 8).max(1)) }], // truncated in the header
                1 => vec![Transit::BitFlip { bit: rng.usize(17) }],                          // start code destroyed
                _ => vec![Transit::draw(rng, b.len(), m.header_end)],
            };
            (s, format!("corrupted {pt:?}"), t, None)
        } else {
            // rejected picture: I/O failure while reading it
            let pt = if have_ref && rng.bool() { PType::P } else { PType::I };
            let s = if pt == PType::I { gen_textured_intra(rng, &cfg, flq.clone(), w, h, tr) } else { gen_signed_p(rng, &cfg, flq.clone(), pt, w, h, tr, 2) };
            let (b, _) = encode(&s);
            let k = *rng.pick(&SrcFault::HARD);
            (s, format!("{pt:?} with I/O failure"), vec![], Some((1 + rng.below(b.len() as u64), k)))
        };
        let clean = transit.is_empty() && io.is_none();
        if clean {
            match spec.ptype {
                PType::Disposable => last_tr = Some(spec.tr),
                _ => {
                    if spec.ptype == PType::I || have_ref {
                        have_ref = true;
                        ref_tr = Some(spec.tr);
                        last_tr = Some(spec.tr);
                    }
                }
            }
        }
        let (pp, _) = PlanPic::from_spec(spec, transit, &note);
        plan.pics.push(pp);
        plan.steps.push(Step::Pic { pic: plan.pics.len() - 1, io_fault: io });
    }
    // finish with a probe: a pure-copy P picture shows which picture is the reference
    if rng.chance(3, 4) {
        let s = gen_signed_p(rng, &cfg, fl.clone(), PType::P, w, h, tr.wrapping_add(1), 0);
        let (pp, _) = PlanPic::from_spec(s, vec![], "P (style 0)");
        plan.pics.push(pp);
        plan.steps.push(Step::Pic { pic: plan.pics.len() - 1, io_fault: None });
    }
    plan.note = format!("opts {opts}, flavour {}, {w}x{h}, TR policy {tr_policy}, {} steps", cfg.flavour, plan.steps.len());
    plan
}

fn ultra_history(variant: u64) -> C04Plan {
    let mut rng = Rng::new(0xC04_0000 + variant);
    let opts = 1;
    let mut cfg = GenCfg::for_opts(&mut rng, opts);
    cfg.flavour = 0;
    cfg.pei16 = 0;
    cfg.stuff16 = 0;
    cfg.density = 0;
    let fl = Flavour::Sorenson { version: 0, size_code: 0 };
    let (w, h) = (16u16, 16u16);
    let mut plan = C04Plan { note: format!("ultra-long history (variant {variant}): I, 65 600+ disposable pictures, probes"), opts, pics: Vec::new(), steps: Vec::new() };
    let mut tr: u8 = 0;
    let i = gen_textured_intra(&mut rng, &cfg, fl.clone(), w, h, tr);
    plan.pics.push(PlanPic::from_spec(i, vec![], "I").0);
    plan.steps.push(Step::Pic { pic: 0, io_fault: None });
    // a small pool of distinct disposable pictures (content differs from the reference), reused
    let pool: Vec<usize> = (0..24)
        .map(|k| {
            // two thirds have content of their own (so that a disposable picture that
            // wrongly became the reference is visible in the probes), one third are copies
            let style = if k % 3 == 0 { 1 } else { 4 };
            let s = gen_signed_p(&mut rng, &cfg, fl.clone(), PType::Disposable, w, h, 0, style);
            plan.pics.push(PlanPic::from_spec(s, vec![], &format!("D (style {style})")).0);
            plan.pics.len() - 1
        })
        .collect();
    let n = 65_600 + (variant as usize) * 700;
    for k in 0..n {
        tr = tr.wrapping_add(1);
        let base = pool[rng.usize(pool.len())];
        // same bytes, own temporal reference: patch the TR field of a copy only when needed
        let mut p = plan.pics[base].clone();
        if let Some(sp) = p.spec.as_mut() {
            sp.tr = if variant == 1 { rng.byte() } else { tr };
        }
        p.rebuild();
        plan.pics.push(p);
        plan.steps.push(Step::Pic { pic: plan.pics.len() - 1, io_fault: None });
        if variant == 2 && k % 9973 == 17 {
            plan.steps.push(Step::Cleanup);
        }
    }
    for _ in 0..3 {
        tr = tr.wrapping_add(1);
        let s = gen_signed_p(&mut rng, &cfg, fl.clone(), PType::P, w, h, tr, 0);
        plan.pics.push(PlanPic::from_spec(s, vec![], "P (style 0)").0);
        plan.steps.push(Step::Pic { pic: plan.pics.len() - 1, io_fault: None });
        let s = gen_signed_p(&mut rng, &cfg, fl.clone(), PType::Disposable, w, h, tr, 1);
        plan.pics.push(PlanPic::from_spec(s, vec![], "D (style 1)").0);
        plan.steps.push(Step::Pic { pic: plan.pics.len() - 1, io_fault: None });
    }
    plan
}

impl Property for C04 {
    type Plan = C04Plan;
    const ID: &'static str = "C04";
    const LEVEL: &'static str = "exploration";
    const RULE: &'static str = "seeded histories of 2-17 events over {I, P, disposable P, rejected picture (corrupted in transit, truncated in the header, I/O failure), clean-up} on one decoder, Sorenson (I/P/D) and standard mode (I/P), temporal references increasing / random / equal to the reference's / equal to the last picture's / wrapping 255->0; P and D pictures carry intra 'signature' macroblocks and not-coded macroblocks (pure copies), pure-copy probe pictures show which picture is the reference; one history in 150 has 258-320 pictures, and a sweep runs ultra-long histories (an intra picture, 65 600+ disposable pictures, probes). After every event the reference-management model M is compared with get_last_picture() and with the copied macroblocks. evaluations = decode calls. A case is non-trivial (and counted in distinct_nontrivial) if it is a copied macroblock check that discriminates, i.e. at least one other decoded picture of the history differs from the true reference at that macroblock; distinct by (picture bytes, macroblock, reference identity).";
    fn runs(tier: Tier) -> u64 {
        match tier {
            Tier::Quick => 60_000,
            Tier::Thorough => 1_500_000,
        }
    }
    fn generate(rng: &mut Rng, tier: Tier) -> C04Plan {
        gen_c04(rng, tier)
    }
    fn execute(plan: &C04Plan, st: &mut Stats) -> Option<Violation> {
        st.sample(|| json!({"note": plan.note, "steps": plan.steps.len(), "history_first_40": plan.steps.iter().take(40).map(|s| match s { Step::Cleanup => "cleanup".to_string(), Step::Pic { pic, io_fault } => format!("{} TR={}{}", plan.pics[*pic].note, plan.pics[*pic].spec.as_ref().map(|s| s.tr).unwrap_or(0), if io_fault.is_some() { " +io" } else { "" }) }).collect::<Vec<_>>()}));
        exec_c04(plan, st)
    }
    fn shrink(plan: &C04Plan) -> Vec<C04Plan> {
        let mut out = Vec::new();
        for steps in drop_chunks(&plan.steps) {
            let mut c = plan.clone();
            c.steps = steps;
            out.push(c);
        }
        for (i, s) in plan.steps.iter().enumerate() {
            if let Step::Pic { pic, .. } = s {
                if let Some(spec) = &plan.pics[*pic].spec {
                    if spec.ptype != PType::I && spec.mbs.iter().any(|m| *m != MbSpec::NotCoded) && plan.pics[*pic].transit.is_empty() {
                        // make it a pure copy
                        let mut c = plan.clone();
                        for m in c.pics[*pic].spec.as_mut().unwrap().mbs.iter_mut() {
                            *m = MbSpec::NotCoded;
                        }
                        c.pics[*pic].rebuild();
                        out.push(c);
                    }
                }
                let _ = i;
            }
        }
        out
    }
    fn sweeps(tier: Tier) -> Vec<C04Plan> {
        // ULTRA-long histories: more than 65 536 disposable pictures between two
        // references (any 16-bit counter or key wraps), then probes of the reference.
        let variants = if tier == Tier::Quick { 1 } else { 3 };
        (0..variants).map(|v| ultra_history(v as u64)).collect()
    }
    fn assumptions() -> Vec<String> {
        vec![
            "the verdict uses only copies and equalities (not-coded macroblocks, headers, whole-picture identity), never model P's arithmetic, so an IDCT or interpolation bug cannot raise a C04 alarm".into(),
            "'a decoder in the same state' for the disposable-vs-P comparison is rebuilt by feeding a fresh decoder every picture accepted so far".into(),
            "for corrupted pictures that are accepted anyway the model follows the header the real decoder reports".into(),
            "standard mode has no disposable picture type; there only I/P/rejected/clean-up histories are generated".into(),
        ]
    }
    fn probe_names() -> Vec<&'static str> {
        vec!["discriminating_copy_checked", "disposable_accepted", "disposable_equals_p_variant", "last_is_disposable", "disposable_tr_equals_reference_tr", "prediction_without_reference_rejected"]
    }
}
