//! C05 — a failed decode changes nothing and can be retried.
//! Fault ENUMERATION: for each seeded scenario (history H, victim picture V,
//! continuation C) every source-fault index, every split point, a list of
//! semantic poisons at every depth and a sample of bit flips are tried, each
//! against a twin decoder that never saw a failure.

use crate::exec::*;
use crate::framework::Property;
use crate::gen::*;
use crate::plan::*;
use crate::rng::{fnv1a, Rng};
use crate::source::SrcFault;
use crate::spec::*;
use crate::stats::Stats;
use serde::{Deserialize, Serialize};
use serde_json::json;

pub struct C05;

#[derive(Clone, Debug, Serialize, Deserialize)]
pub struct C05Plan {
    pub note: String,
    pub opts: u8,
    pub prefix: Vec<PlanPic>,
    pub victim: PlanPic,
    pub cont: Vec<PlanPic>,
    /// Poisoned variants of the victim (generator-side faults), with a label.
    pub poisons: Vec<PlanPic>,
    /// Which enumerations to run (the minimiser switches them off one by one).
    pub do_io: bool,
    pub do_split: bool,
    pub do_poison: bool,
    pub do_eintr: bool,
    /// Restrict split points / fault indices to this list (minimiser); empty = all.
    pub only: Vec<usize>,
    pub io_kinds: Vec<SrcFault>,
    /// The victim is delivered into the SAME reader that just decoded the last
    /// picture of the history (so the failing call starts at whatever bit phase
    /// that picture ended on, behind a committed buffer).
    #[serde(default)]
    pub shared_reader: bool,
    /// Short-read knob (0 = unlimited): every source of the scenario hands out at
    /// most this many bytes per read.
    #[serde(default)]
    pub max_chunk: usize,
    /// A container "tag" of this many bytes precedes the victim in its reader; the
    /// USER reads it with `read_bits` (no commit) and then calls the decoder.  A
    /// failed call must put the reader back to where the CALL started, i.e. after the tag.
    #[serde(default)]
    pub tag_bytes: usize,
    /// With a tag: the user reads tag and picture as ONE record inside a transaction
    /// of their own, `reader.with_transaction(|r| { read tag; decode })`; a failure
    /// must leave the reader in front of the tag (the user's checkpoint stays valid).
    #[serde(default)]
    pub outer_txn: bool,
}

fn build(opts: u8, prefix: &[PlanPic]) -> Result<Slot, String> {
    build_chunked(opts, prefix, 0)
}

fn build_chunked(opts: u8, prefix: &[PlanPic], max_chunk: usize) -> Result<Slot, String> {
    let mut s = Slot::new(opts);
    if max_chunk > 0 {
        s.set_max_chunk(max_chunk);
    }
    for (i, p) in prefix.iter().enumerate() {
        s.new_reader();
        s.feed(&p.bytes);
        let o = s.decode();
        if !o.is_ok() {
            return Err(format!("prefix picture {i} ({}) was not accepted: {}", p.note, o.short()));
        }
    }
    Ok(s)
}

/// A decoder that has seen the history and whose reader is ready to receive the
/// victim: a fresh reader, or (shared mode) the reader that decoded the last
/// history picture.
fn prep(plan: &C05Plan) -> Result<Slot, String> {
    if plan.shared_reader && !plan.prefix.is_empty() {
        let n = plan.prefix.len();
        let mut s = build_chunked(plan.opts, &plan.prefix[..n - 1], plan.max_chunk)?;
        s.new_reader();
        s.feed(&plan.prefix[n - 1].bytes);
        let o = s.decode();
        if !o.is_ok() {
            return Err(format!("last history picture not accepted: {}", o.short()));
        }
        Ok(s)
    } else {
        let mut s = build_chunked(plan.opts, &plan.prefix, plan.max_chunk)?;
        s.new_reader();
        if plan.tag_bytes > 0 && plan.outer_txn {
            let tag: Vec<u8> = (0..plan.tag_bytes).map(|i| 0xA0 | (i as u8 & 0x0F)).collect();
            s.feed(&tag);
        } else if plan.tag_bytes > 0 {
            let tag: Vec<u8> = (0..plan.tag_bytes).map(|i| 0xA0 | (i as u8 & 0x0F)).collect();
            s.feed(&tag);
            let n = plan.tag_bytes;
            let r = guarded(|| {
                for _ in 0..n {
                    let _ = s.reader.read_bits::<u8>(8);
                }
            });
            if r.is_err() {
                return Err("reading the tag panicked".into());
            }
        }
        Ok(s)
    }
}

/// The call under test: a plain decode call, or (outer_txn) the user's own
/// transaction that reads the tag and then decodes.
fn call(m: &mut Slot, plan: &C05Plan) -> Outcome {
    let shared = plan.shared_reader && !plan.prefix.is_empty();
    if !(plan.outer_txn && plan.tag_bytes > 0 && !shared) {
        return m.decode();
    }
    {
        let mut p = m.pipe.lock().unwrap();
        let remaining = (p.data.len() - p.pos) as u64;
        p.budget = p.reads + 256 + 4 * remaining + 4 * p.armed.len() as u64;
    }
    let n = plan.tag_bytes;
    let r = guarded(|| {
        let Slot { reader, state, .. } = m;
        reader.with_transaction(|r| {
            for _ in 0..n {
                r.read_bits::<u8>(8)?;
            }
            state.decode_next_picture(r)
        })
    });
    m.pipe.lock().unwrap_or_else(|e| e.into_inner()).budget = u64::MAX;
    match r {
        Ok(Ok(())) => Outcome::Ok,
        Ok(Err(e)) => Outcome::Err(err_string(&e)),
        Err(p) => {
            m.poisoned = true;
            Outcome::Panic(p)
        }
    }
}

fn decode_fresh(s: &mut Slot, bytes: &[u8]) -> Outcome {
    s.new_reader();
    s.feed(bytes);
    s.decode()
}

#[derive(Clone, PartialEq, Eq)]
struct Obs {
    out: String,
    last: Option<Snap>,
    reference: Option<Snap>,
}

fn observe(s: &Slot, out: &Outcome) -> Obs {
    Obs { out: out.class(), last: snap_last(&s.state), reference: snap_reference(&s.state) }
}

fn diff_obs(a: &Obs, b: &Obs) -> String {
    if a.out != b.out {
        return format!("result {} vs twin {}", a.out, b.out);
    }
    let d = |x: &Option<Snap>, y: &Option<Snap>, what: &str| -> Option<String> {
        match (x, y) {
            (None, None) => None,
            (Some(p), Some(q)) => {
                if p == q {
                    None
                } else if p.header != q.header {
                    Some(format!("{what} picture header differs: {} vs twin {}", p.header, q.header))
                } else {
                    let i = p.y.iter().zip(q.y.iter()).position(|(u, v)| u != v);
                    Some(format!("{what} picture samples differ (first luma difference at index {i:?})"))
                }
            }
            _ => Some(format!("{what} picture present on one side only")),
        }
    };
    d(&a.last, &b.last, "most recent").or_else(|| d(&a.reference, &b.reference, "reference")).unwrap_or_else(|| "no difference".into())
}

/// Read up to 8 bytes ahead without consuming; they must be the victim's first bytes.
fn reader_where_it_was(s: &mut Slot, expect: &[u8]) -> Result<(), String> {
    // the look-ahead runs real reader code: a panic in there is not this check's verdict
    match guarded(|| reader_where_it_was_inner(s, expect)) {
        Ok(r) => r,
        Err(_) => Ok(()),
    }
}

fn reader_where_it_was_inner(s: &mut Slot, expect: &[u8]) -> Result<(), String> {
    let got: Vec<u8> = s
        .reader
        .with_lookahead(|r| {
            let mut v = Vec::new();
            for _ in 0..8 {
                match r.read_u8() {
                    Ok(b) => v.push(b),
                    Err(_) => break,
                }
            }
            Ok(v)
        })
        .map_err(|e| format!("look-ahead failed: {}", err_string(&e)))?;
    let n = got.len().min(expect.len());
    if got[..n] != expect[..n] {
        return Err(format!("reader no longer at the start of the picture: next bytes {:02x?}, picture starts {:02x?}", &got[..n], &expect[..n]));
    }
    Ok(())
}

struct Twin {
    after_v: Obs,
    after_c: Vec<Obs>,
    reads_v: u64,
}

fn viol(class: &str, detail: String) -> Option<Violation> {
    Some(Violation { class: format!("C05: {class}"), detail })
}

/// After a failure on `m`: state must equal `before`.
fn check_unchanged(m: &Slot, before: (u64, &Obs), what: &str) -> Option<Violation> {
    if state_digest(&m.state) != before.0 {
        let now = Obs { out: before.1.out.clone(), last: snap_last(&m.state), reference: snap_reference(&m.state) };
        return viol("decoder state changed by a failed call", format!("{what}: {}", diff_obs(&now, before.1)));
    }
    None
}

/// Run the continuation on `m` and compare with the twin.
fn check_continuation(m: &mut Slot, plan: &C05Plan, twin: &Twin, what: &str) -> Option<Violation> {
    for (i, c) in plan.cont.iter().enumerate() {
        let o = decode_fresh(m, &c.bytes);
        if let Outcome::Panic(_) = &o {
            return None; // a crash is C01's verdict
        }
        let ob = observe(m, &o);
        if ob != twin.after_c[i] {
            return viol("continuation differs from the twin that never saw the failure", format!("{what}: continuation picture {i}: {}", diff_obs(&ob, &twin.after_c[i])));
        }
    }
    None
}

pub fn exec_c05(plan: &C05Plan, st: &mut Stats) -> Option<Violation> {
    let v = &plan.victim.bytes;
    // ---- twin -------------------------------------------------------------------
    let shared = plan.shared_reader && !plan.prefix.is_empty();
    let mut t = match prep(plan) {
        Ok(t) => t,
        Err(e) => {
            st.inc("invalid_scenario");
            st.hs(&e);
            return None;
        }
    };
    let reads0 = {
        t.feed(v);
        t.reads()
    };
    let o = call(&mut t, plan);
    let reads_v = t.reads() - reads0;
    if !o.is_ok() {
        st.inc("invalid_scenario");
        st.hs(&o.class());
        return None;
    }
    let after_v = observe(&t, &o);
    let mut after_c = Vec::new();
    for c in &plan.cont {
        let o = decode_fresh(&mut t, &c.bytes);
        if matches!(o, Outcome::Panic(_)) {
            st.inc("invalid_scenario");
            return None;
        }
        after_c.push(observe(&t, &o));
    }
    let twin = Twin { after_v, after_c, reads_v };
    st.inc("scenarios");
    let marks = plan.victim.spec.as_ref().map(|s| encode(s).1);
    let scen = fnv1a(v) ^ fnv1a(&[plan.prefix.len() as u8, plan.opts]);
    let wanted = |i: usize| plan.only.is_empty() || plan.only.contains(&i);

    // ---- 1. hard source faults, chained on one reader ---------------------------
    if plan.do_io {
        for kind in &plan.io_kinds {
            let mut m = match prep(plan) {
                Ok(m) => m,
                Err(_) => return None,
            };
            let before_obs = observe(&m, &Outcome::Ok);
            let before = state_digest(&m.state);
            m.feed(v);
            let mut failures = 0u64;
            // with a sampled scenario (`only`, large victims) the chain jumps from one
            // sampled byte position to the next instead of advancing byte by byte
            let targets: Vec<usize> = {
                let mut t = plan.only.clone();
                t.sort();
                t.dedup();
                t
            };
            let mut pos = 0usize; // bytes of V the failed calls have pulled in so far
            loop {
                // the 2nd read from now fails: every call gets exactly one byte further
                let gap: u64 = if targets.is_empty() {
                    2
                } else {
                    targets.iter().find(|t| **t > pos).map(|t| (*t - pos + 1) as u64).unwrap_or(1 << 40)
                };
                m.arm(gap, *kind);
                let o = call(&mut m, plan);
                st.inc("evaluations");
                st.add("steps", 1);
                match &o {
                    Outcome::Panic(_) => {
                        st.inc("panic_not_judged_here"); // a crash is C01's verdict
                        return None;
                    }
                    Outcome::Ok => {
                        // the armed fault was not reached: all data was buffered
                        m.disarm_all();
                        let ob = observe(&m, &o);
                        if ob != twin.after_v {
                            return viol("retry after I/O failures differs from a clean decode", format!("after {failures} failed calls ({kind:?}): {}", diff_obs(&ob, &twin.after_v)));
                        }
                        break;
                    }
                    Outcome::Err(e) => {
                        failures += 1;
                        pos += (gap - 1) as usize;
                        st.inc(&format!("fault.src_{kind:?}.fired"));
                        if pos >= 4096 {
                            st.inc("probe.io_error_after_4096_consumed_bytes");
                        }
                        let elem = marks.as_ref().map(|mk| mk.classify_byte(pos)).unwrap_or("?");
                        st.inc(&format!("probe.io_error_inside_{elem}"));
                        if elem != "header" {
                            st.distinct.insert(scen ^ fnv1a(format!("io/{kind:?}/{pos}").as_bytes()));
                        }
                        st.hs(e);
                        if !e.starts_with("Io(") {
                            // the decoder turned the I/O failure into something else: still a failure
                            st.inc("io_error_reported_as_other_error");
                        }
                        if let Some(x) = check_unchanged(&m, (before, &before_obs), &format!("I/O fault {kind:?} at source byte {pos} ({elem})")) {
                            return Some(x);
                        }
                        if failures > twin.reads_v + 8 {
                            return viol("decoder makes no progress across retries after I/O errors", format!("{failures} failed calls for a picture of {} source reads", twin.reads_v));
                        }
                    }
                }
            }
            if let Some(x) = check_continuation(&mut m, plan, &twin, &format!("after chained {kind:?} faults")) {
                return Some(x);
            }
        }
    }

    // ---- 2. EINTR at every read: must be invisible ---------------------------------
    if plan.do_eintr {
        let mut m = prep(plan).ok()?;
        m.feed(v);
        let mut n = 1;
        while n <= twin.reads_v * 2 + 2 {
            m.arm(n, SrcFault::Eintr);
            n += 2;
        }
        let o = call(&mut m, plan);
        st.inc("evaluations");
        let fired = m.pipe.lock().unwrap().fired.iter().map(|f| f.1).sum::<u64>();
        st.add("fault.src_Eintr.fired", fired);
        if let Outcome::Panic(_) = &o {
            st.inc("panic_not_judged_here");
            return None;
        }
        let ob = observe(&m, &o);
        if ob != twin.after_v {
            return viol("EINTR is not invisible", format!("{} interrupted reads: {}", fired, diff_obs(&ob, &twin.after_v)));
        }
        // ... and a burst: sixty interrupted reads in a row somewhere inside the picture
        let mut m = prep(plan).ok()?;
        m.feed(v);
        let at = 1 + (scen % (twin.reads_v.max(1)));
        for k in 0..60 {
            m.arm(at + k, SrcFault::Eintr);
        }
        let o = call(&mut m, plan);
        st.inc("evaluations");
        st.add("fault.src_Eintr.fired", m.pipe.lock().unwrap().fired.iter().map(|f| f.1).sum::<u64>());
        if !matches!(o, Outcome::Panic(_)) {
            let ob = observe(&m, &o);
            if ob != twin.after_v {
                return viol("EINTR is not invisible", format!("a burst of 60 interrupted reads at read {at}: {}", diff_obs(&ob, &twin.after_v)));
            }
            st.inc("probe.eintr_burst_invisible");
        }
    }

    // ---- 3. every split point ----------------------------------------------------------
    if plan.do_split {
        for k in 0..v.len() {
            if !wanted(k) {
                continue;
            }
            let mut m = prep(plan).ok()?;
            let before_obs = observe(&m, &Outcome::Ok);
            let before = state_digest(&m.state);
            m.feed(&v[..k]);
            let o = call(&mut m, plan);
            st.inc("evaluations");
            st.add("steps", 1);
            st.inc("fault.eof_for_now.fired");
            let elem = marks.as_ref().map(|mk| mk.classify_byte(k)).unwrap_or("?");
            match &o {
                Outcome::Panic(_) => {
                    st.inc("panic_not_judged_here");
                    continue;
                }
                Outcome::Ok => {
                    // legitimately accepted as a picture that ended early: the
                    // precondition "the call failed" is not met — counted, not judged
                    st.inc("split_accepted_as_early_end");
                    continue;
                }
                Outcome::Err(e) => {
                    st.inc(&format!("probe.split_failed_inside_{elem}"));
                    st.hs(e);
                    if elem != "header" {
                        st.distinct.insert(scen ^ fnv1a(format!("split/{k}").as_bytes()));
                    }
                }
            }
            let what = format!("first {k} of {} bytes delivered ({elem}), call failed with {}", v.len(), o.short());
            if let Some(x) = check_unchanged(&m, (before, &before_obs), &what) {
                return Some(x);
            }
            if !shared {
                let expect: Vec<u8> = if plan.outer_txn && plan.tag_bytes > 0 { (0..plan.tag_bytes).map(|i| 0xA0 | (i as u8 & 0x0F)).chain(v.iter().copied()).collect() } else { v.clone() };
                if let Err(e) = reader_where_it_was(&mut m, &expect) {
                    return viol("reader moved by a failed call", format!("{what}: {e}"));
                }
            }
            // deliver the rest, retry: as if all data had been there from the start
            m.feed(&v[k..]);
            let o2 = call(&mut m, plan);
            st.inc("evaluations");
            if let Outcome::Panic(_) = &o2 {
                st.inc("panic_not_judged_here");
                continue;
            }
            let ob = observe(&m, &o2);
            if ob != twin.after_v {
                return viol("retry after more data differs from a one-piece decode", format!("{what}; retry: {}", diff_obs(&ob, &twin.after_v)));
            }
            if k % 7 == 3 {
                if let Some(x) = check_continuation(&mut m, plan, &twin, &what) {
                    return Some(x);
                }
            }
        }
    }

    // ---- 4. poisons at every depth + bit flips --------------------------------------------
    if plan.do_poison {
        for (pi, p) in plan.poisons.iter().enumerate() {
            if !wanted(pi) {
                continue;
            }
            let mut m = prep(plan).ok()?;
            let before_obs = observe(&m, &Outcome::Ok);
            let before = state_digest(&m.state);
            m.feed(&p.bytes);
            // memory screen over everything the reader can see (on a reused reader the
            // padding of the previous picture and the first zeros of this one can form
            // a start code of their own)
            let too_large = max_declared_samples(&m.pipe.lock().unwrap().data, plan.opts & 1 == 1) > crate::session::SCREEN_SAMPLES;
            if too_large {
                st.inc("excluded_too_large");
                continue;
            }
            let o = call(&mut m, plan);
            st.inc("evaluations");
            st.add("steps", 1);
            let what = format!("poison '{}' -> {}", p.note, o.short());
            match &o {
                Outcome::Panic(_) => {
                    st.inc("panic_not_judged_here");
                    continue;
                }
                Outcome::Ok => {
                    st.inc("poison_accepted");
                    continue;
                }
                Outcome::Err(e) => {
                    st.inc(&format!("fault.poison_{}.fired", p.note.split(':').next().unwrap_or("?")));
                    st.hs(e);
                    st.distinct.insert(scen ^ fnv1a(&p.bytes));
                }
            }
            if let Some(x) = check_unchanged(&m, (before, &before_obs), &what) {
                return Some(x);
            }
            if !shared {
                let expect: Vec<u8> = if plan.outer_txn && plan.tag_bytes > 0 { (0..plan.tag_bytes).map(|i| 0xA0 | (i as u8 & 0x0F)).chain(p.bytes.iter().copied()).collect() } else { p.bytes.clone() };
                if let Err(e) = reader_where_it_was(&mut m, &expect) {
                    return viol("reader moved by a failed call", format!("{what}: {e}"));
                }
            } else {
                st.inc("probe.failure_on_a_reused_reader");
            }
            // valid data afterwards: the victim, then the continuation
            let o2 = decode_fresh(&mut m, v);
            st.inc("evaluations");
            if let Outcome::Panic(_) = &o2 {
                st.inc("panic_not_judged_here");
                continue;
            }
            let ob = observe(&m, &o2);
            if ob != twin.after_v {
                return viol("decoding valid data after a rejected picture differs from the twin", format!("{what}: {}", diff_obs(&ob, &twin.after_v)));
            }
            if let Some(x) = check_continuation(&mut m, plan, &twin, &what) {
                return Some(x);
            }
        }
    }
    // ---- 5. a chain of different failures on ONE decoder, then valid data ----------------
    if plan.do_poison && plan.only.is_empty() {
        let mut m = build(plan.opts, &plan.prefix).ok()?;
        let before_obs = observe(&m, &Outcome::Ok);
        let before = state_digest(&m.state);
        let mut failed = 0;
        let mut clean = true;
        for p in plan.poisons.iter() {
            if max_declared_samples(&p.bytes, plan.opts & 1 == 1) > crate::session::SCREEN_SAMPLES {
                continue;
            }
            let o = decode_fresh(&mut m, &p.bytes);
            st.inc("evaluations");
            match &o {
                Outcome::Panic(_) => {
                    st.inc("panic_not_judged_here");
                    clean = false;
                    break;
                }
                Outcome::Ok => {
                    clean = false; // accepted: the state changed legitimately, stop the chain
                    break;
                }
                Outcome::Err(_) => {
                    failed += 1;
                    if let Some(x) = check_unchanged(&m, (before, &before_obs), &format!("failure chain: after {failed} rejected pictures, last '{}'", p.note)) {
                        return Some(x);
                    }
                }
            }
        }
        if clean && failed > 0 {
            st.inc("probe.failure_chain_completed");
            st.add("failure_chain_rejected_pictures", failed);
            let o2 = decode_fresh(&mut m, v);
            let ob = observe(&m, &o2);
            if ob != twin.after_v {
                return viol("decoding valid data after a chain of rejected pictures differs from the twin", format!("{failed} rejected pictures: {}", diff_obs(&ob, &twin.after_v)));
            }
            if let Some(x) = check_continuation(&mut m, plan, &twin, &format!("after a chain of {failed} rejected pictures")) {
                return Some(x);
            }
        }
    }
    None
}

// ---- generation -------------------------------------------------------------------------------

fn poison_variants(rng: &mut Rng, spec: &PicSpec, has_ref: bool) -> Vec<PlanPic> {
    let mut out = Vec::new();
    let intra_pic = spec.ptype == PType::I;
    let (clean, marks) = encode(spec);
    // header depth
    {
        let mut b = clean.clone();
        b[2] &= 0x7F; // the '1' of the start code
        out.push(PlanPic::raw(b, "header: start code destroyed"));
        let mut s = spec.clone();
        match &spec.flavour {
            Flavour::Sorenson { version, .. } => {
                s.flavour = Flavour::Sorenson { version: *version, size_code: 7 };
                out.push(PlanPic::from_spec(s, vec![], "header: reserved size code").0);
                let mut s = spec.clone();
                s.ptype = PType::Reserved3;
                out.push(PlanPic::from_spec(s, vec![], "header: reserved picture type").0);
            }
            Flavour::StdPtype { .. } => {
                let mut b = clean.clone();
                b[3] ^= 0x02; // PTYPE bit 1 (must be 1): byte 3 = GN low bits..; bit position 30
                out.push(PlanPic::raw(b, "header: PTYPE marker bit wrong"));
                s.flavour = Flavour::StdPtype { fmt: 6, umv: false, sac: false, ap: false, pb: false };
                out.push(PlanPic::from_spec(s, vec![], "header: reserved source format").0);
            }
            Flavour::StdPlus { .. } => {
                let mut b = clean.clone();
                // CPFMT marker bit (bit 14 of CPFMT): header layout is fixed, find it from the end of the header:
                // ... CPFMT(23) [UUI] PQUANT(5) PEI(1)
                let uui = matches!(spec.flavour, Flavour::StdPlus { umv_unlimited: true, .. }) as usize * 2;
                let pei = spec.pei.len() * 9 + 1;
                let layers = matches!(spec.flavour, Flavour::StdPlus { layers: Some(_), .. }) as usize * 8;
                let cpfmt_start = marks.header_end - pei - 5 - layers - uui - 23;
                let bit = cpfmt_start + 13;
                b[bit / 8] &= !(0x80 >> (bit % 8));
                out.push(PlanPic::raw(b, "header: CPFMT marker bit wrong"));
            }
        }
    }
    // macroblock-header and block depth, at a random macroblock each
    let n = spec.mbs.len();
    if n > 0 {
        let cod: Vec<(u32, u8)> = if intra_pic { vec![] } else { vec![(0, 1)] };
        let mut at = |rng: &mut Rng| rng.usize(n);
        let trunc = |m: usize, tail: Vec<(u32, u8)>, note: &str| -> PlanPic {
            let mut s = spec.clone();
            s.mbs.truncate(m);
            s.tail_stuffing = 0;
            s.extra_bits = tail;
            s.extra_bits.push((0x5A5A_5A5A, 32));
            PlanPic::from_spec(s, vec![], note).0
        };
        let m = at(rng);
        let mut tail = cod.clone();
        tail.push((0, 13));
        tail.push((1, 1));
        out.push(trunc(m, tail, &format!("mb_header: invalid MCBPC at macroblock {m}")));
        let m = at(rng);
        let mut tail = cod.clone();
        tail.push((1, 1)); // MCBPC "1"
        tail.push((0, 5)); // CBPY invalid prefix
        out.push(trunc(m, tail, &format!("mb_header: invalid CBPY at macroblock {m}")));
        if !intra_pic {
            let m = at(rng);
            let mut tail = cod.clone();
            tail.push((1, 1)); // Inter, cbpc 00
            tail.push((0b11, 2)); // CBPY: no luma block coded (inter)
            tail.push((0, 11)); // invalid MVD
            tail.push((1, 1));
            out.push(trunc(m, tail, &format!("mb_header: invalid MVD at macroblock {m}")));
        }
        // block data: INTRADC 0 / 128, escape level 0, invalid TCOEF
        let m = at(rng);
        let b = rng.usize(6);
        let mut tail = cod.clone();
        if intra_pic {
            tail.push((1, 1)); // Intra, cbpc 00
        } else {
            tail.push((0b00011, 5)); // Intra in a P picture, cbpc 00
        }
        tail.push((0b0011, 4)); // CBPY: no luma coded (intra)
        for i in 0..6 {
            tail.push((if i == b { *rng.pick(&[0u32, 128]) } else { 0x40 }, 8));
        }
        out.push(trunc(m, tail, &format!("block_data: invalid INTRADC in block {b} of macroblock {m}")));
        let m = at(rng);
        let mut tail = cod.clone();
        if intra_pic {
            tail.push((1, 1));
        } else {
            tail.push((0b00011, 5));
        }
        tail.push((0b00010, 5)); // CBPY intra: only luma block 0 coded
        tail.push((0x40, 8)); // INTRADC
        if rng.bool() {
            tail.push((0, 9)); // invalid TCOEF prefix
            tail.push((1, 1));
            out.push(trunc(m, tail, &format!("block_data: invalid TCOEF code in macroblock {m}")));
        } else {
            tail.push((0b0000011, 7)); // ESCAPE
            if spec.sorenson_v1() {
                tail.push((0, 1));
                tail.push((1, 1)); // last
                tail.push((0, 6)); // run
                tail.push((0, 7)); // level 0
            } else {
                tail.push((1, 1));
                tail.push((0, 6));
                tail.push((0, 8));
            }
            out.push(trunc(m, tail, &format!("block_data: escape with level 0 in macroblock {m}")));
        }
    }
    // prediction depth
    if !intra_pic && has_ref {
        let mut s = spec.clone();
        let ok = match &s.flavour {
            Flavour::Sorenson { version, .. } => {
                s.flavour = Flavour::Sorenson { version: *version, size_code: 0 };
                s.width = if spec.width > 16 { 16 } else { 33 };
                s.height = spec.height.min(255);
                true
            }
            _ => false,
        };
        if ok {
            let n = s.mb_count();
            s.mbs = vec![MbSpec::NotCoded; n];
            out.push(PlanPic::from_spec(s, vec![], "prediction: picture of another size than the reference").0);
        }
    }
    // a sample of single bit flips anywhere
    for _ in 0..12 {
        let bit = rng.usize(clean.len() * 8);
        let mut b = clean.clone();
        b[bit / 8] ^= 0x80 >> (bit % 8);
        out.push(PlanPic::raw(b, &format!("bitflip: bit {bit} ({})", marks.classify_byte(bit / 8))));
    }
    out
}

pub fn gen_c05(rng: &mut Rng, tier: Tier) -> C05Plan {
    let opts = rng.below(4) as u8;
    let sorenson = opts & 1 == 1;
    let mut cfg = GenCfg::for_opts(rng, opts);
    let _ = sorenson;
    // one scenario in 60 has a LARGE victim (dense pictures of several kilobytes, so that
    // a late failure comes after thousands of consumed bytes); its split points and
    // poisons are sampled (`only`), the I/O chain still visits every byte
    let large = rng.chance(1, 60);
    let limit = if large { 1 << 20 } else if tier == Tier::Quick { 400 } else { 1200 };
    if large {
        cfg.density = 3;
        cfg.mb_weights = [1, 2, 1, 4, 4, 1, 0];
    }
    if cfg.flavour == 3 && !large {
        cfg.density = cfg.density.min(1);
        cfg.mb_weights[0] += 20;
    }
    let class = if tier == Tier::Quick { *rng.pick(&[0u8, 0, 3]) } else { *rng.pick(&[0u8, 1, 3]) };
    let (mut w, mut h) = gen_size(rng, class);
    if large {
        w = 80 + 16 * rng.below(3) as u16;
        h = 80 + 16 * rng.below(3) as u16;
    }
    if w as u32 * h as u32 > 96 * 96 {
        // the enumeration is quadratic in the victim's length: keep victims small
        w = w.min(48);
        h = h.min(48);
    }
    let (fl, w, h) = flavour_for(rng, &cfg, w, h);
    let mut tr = rng.byte();
    let mut has_ref = false;
    let mut next = |rng: &mut Rng, cfg: &GenCfg, has_ref: &mut bool, force_i: bool| -> PlanPic {
        tr = match rng.below(6) {
            0 => tr,
            1 => rng.byte(),
            _ => tr.wrapping_add(1),
        };
        let ptype = if !*has_ref || force_i || rng.chance(1, 5) {
            PType::I
        } else if cfg.is_sorenson() && rng.chance(1, 4) {
            PType::Disposable
        } else {
            PType::P
        };
        let mut c = cfg.clone();
        let mut tries = 0;
        loop {
            let flq = requalify(rng, &fl, w, h);
            let spec = gen_picture(rng, &c, flq, ptype, w, h, tr);
            let (pp, _) = PlanPic::from_spec(spec, vec![], "valid");
            if pp.bytes.len() <= limit || tries > 6 {
                if ptype != PType::Disposable {
                    *has_ref = true;
                }
                return pp;
            }
            c.density = c.density.saturating_sub(1);
            c.mb_weights[0] += 10;
            tries += 1;
        }
    };
    let nh = rng.weighted(&[2, 3, 2, 1, 1]);
    let mut prefix = Vec::new();
    for _ in 0..nh {
        prefix.push(next(rng, &cfg, &mut has_ref, false));
    }
    let had_ref_before_victim = has_ref;
    let victim = next(rng, &cfg, &mut has_ref, false);
    let nc = 1 + rng.usize(3);
    let mut cont = Vec::new();
    for _ in 0..nc {
        cont.push(next(rng, &cfg, &mut has_ref, false));
    }
    let poisons = poison_variants(rng, victim.spec.as_ref().unwrap(), had_ref_before_victim);
    let only: Vec<usize> = if large {
            // all poisons (indices below 24) and two dozen split points, most of them late
            let n = victim.bytes.len().max(1);
            let mut v: Vec<usize> = (0..24).collect();
            for _ in 0..16 {
                v.push(n - 1 - rng.usize(n.min(64)));
                v.push(rng.usize(n));
            }
            v.push(n.min(4097));
            v
        } else {
            vec![]
        };
    C05Plan {
        note: format!("opts {opts}, flavour {}, {w}x{h}, |H|={}, |V|={} bytes, |C|={}", cfg.flavour, prefix.len(), victim.bytes.len(), cont.len()),
        opts,
        prefix,
        victim,
        cont,
        poisons,
        do_io: true,
        do_split: true,
        do_poison: true,
        do_eintr: true,
        only,
        io_kinds: vec![*rng.pick(&SrcFault::HARD)],
        shared_reader: rng.chance(1, 3),
        max_chunk: *rng.pick(&[0usize, 0, 0, 1, 2, 3, 7]),
        tag_bytes: *rng.pick(&[0usize, 0, 0, 1, 3, 5]),
        outer_txn: rng.bool(),
    }
}

impl Property for C05 {
    type Plan = C05Plan;
    const ID: &'static str = "C05";
    const LEVEL: &'static str = "fault_enumeration";
    const RULE: &'static str = "scenarios (history H of 0-4 accepted pictures, a valid victim picture V, a continuation C of 1-3 valid pictures; one scenario in 60 has a LARGE victim of several kilobytes whose fault positions are sampled instead of enumerated, most of them late; all option sets, Sorenson v0/v1/other and standard PTYPE/PLUSPTYPE) are seeded; for each scenario the faults are ENUMERATED: a hard I/O error at every source-read index of V (chained on one reader, each call one byte further, then a clean retry), EINTR on every other read, every split point k in 0..len(V) across two deliveries, one semantic poison per depth (header / macroblock header / block data / prediction) and 12 single bit flips. evaluations = decode calls made under an injected fault or as its retry. A case is non-trivial if the failing call got past the picture header; distinct by (victim bytes, history shape, fault kind, fault position).";
    fn runs(tier: Tier) -> u64 {
        match tier {
            Tier::Quick => 6_000,
            Tier::Thorough => 40_000,
        }
    }
    fn generate(rng: &mut Rng, tier: Tier) -> C05Plan {
        gen_c05(rng, tier)
    }
    fn execute(plan: &C05Plan, st: &mut Stats) -> Option<Violation> {
        st.sample(|| json!({"note": plan.note, "victim_bytes": plan.victim.bytes.len(), "poisons": plan.poisons.iter().map(|p| p.note.clone()).collect::<Vec<_>>()}));
        exec_c05(plan, st)
    }
    fn shrink(plan: &C05Plan) -> Vec<C05Plan> {
        let mut out = Vec::new();
        // switch whole enumerations off
        for i in 0..4 {
            let mut c = plan.clone();
            let f = match i {
                0 => &mut c.do_io,
                1 => &mut c.do_split,
                2 => &mut c.do_poison,
                _ => &mut c.do_eintr,
            };
            if *f {
                *f = false;
                out.push(c);
            }
        }
        // restrict to a single index
        if plan.only.is_empty() && (plan.do_split ^ plan.do_poison) && !plan.do_io && !plan.do_eintr {
            let n = if plan.do_split { plan.victim.bytes.len() } else { plan.poisons.len() };
            for k in 0..n {
                let mut c = plan.clone();
                c.only = vec![k];
                out.push(c);
            }
        }
        for pre in drop_chunks(&plan.prefix) {
            let mut c = plan.clone();
            c.prefix = pre;
            out.push(c);
        }
        for cont in drop_chunks(&plan.cont) {
            let mut c = plan.clone();
            c.cont = cont;
            out.push(c);
        }
        if !plan.cont.is_empty() {
            let mut c = plan.clone();
            c.cont.clear();
            out.push(c);
        }
        out
    }
    fn assumptions() -> Vec<String> {
        vec![
            "twin oracle: the same (possibly wrong) decoder on both sides; decides consistency across failures, not absolute correctness".into(),
            "a split that the decoder legitimately accepts as an early-ended picture is not a failure and is counted, not judged".into(),
            "carried-over options are checked behaviourally: the continuation must match the twin picture for picture".into(),
            "scenarios whose own valid pictures are not accepted are counted as invalid_scenario and not judged here (that is C02/C03/C04 territory)".into(),
        ]
    }
    fn probe_names() -> Vec<&'static str> {
        vec!["io_error_inside_header", "io_error_inside_mb_header", "io_error_inside_block_data", "split_failed_inside_header", "split_failed_inside_block_data", "failure_on_a_reused_reader", "failure_chain_completed", "eintr_burst_invisible", "io_error_after_4096_consumed_bytes"]
    }
}
