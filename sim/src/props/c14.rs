//! C14 — the bit reader delivers each bit once, in order, under any mix of
//! operations.  Operation-history simulation of the REAL `H263Reader` over a
//! fault-injecting source, checked operation by operation against model R.

use crate::exec::*;
use crate::framework::Property;
use crate::model::reader::{MErr, ReaderModel};
use crate::plan::*;
use crate::rng::{fnv1a, Rng};
use crate::source::{new_pipe, SharedPipe, SimSource, SrcFault};
use crate::stats::Stats;
use h263_rs::parser::{Entry, H263Reader};
use serde::{Deserialize, Serialize};
use serde_json::json;

pub struct C14;

#[derive(Clone, Copy, Debug, PartialEq, Eq, Serialize, Deserialize)]
pub enum Ty {
    U8,
    U16,
    U32,
    U64,
    I16,
    I32,
    I64,
}

impl Ty {
    pub const ALL: [Ty; 7] = [Ty::U8, Ty::U16, Ty::U32, Ty::U64, Ty::I16, Ty::I32, Ty::I64];
    pub fn width(self) -> u32 {
        match self {
            Ty::U8 => 8,
            Ty::U16 | Ty::I16 => 16,
            Ty::U32 | Ty::I32 => 32,
            Ty::U64 | Ty::I64 => 64,
        }
    }
}

#[derive(Clone, Copy, Debug, PartialEq, Eq, Serialize, Deserialize)]
pub enum End {
    Ok,
    Err,
    /// Union only.
    None,
}

#[derive(Clone, Debug, PartialEq, Eq, Serialize, Deserialize)]
pub enum TEntry {
    End(u8),
    Fork(usize, usize),
}

#[derive(Clone, Debug, PartialEq, Eq, Serialize, Deserialize)]
pub enum Op {
    Peek { ty: Ty, n: u32 },
    Read { ty: Ty, n: u32 },
    PeekS { ty: Ty, n: u32 },
    ReadS { ty: Ty, n: u32 },
    Skip { n: u32 },
    ReadU8,
    StartCode { in_error: bool },
    Vlc { table: usize },
    Commit,
    /// `with_transaction`; `propagate`: the closure uses `?` on its reads.
    Txn { body: Vec<Op>, end: End, propagate: bool },
    /// `with_transaction_union`.
    Union { body: Vec<Op>, end: End, propagate: bool },
    /// `with_lookahead`.
    Look { body: Vec<Op> },
    Deliver {
        #[serde(with = "crate::plan::hex")]
        bytes: Vec<u8>,
    },
    Arm { n: u64, kind: SrcFault },
}

#[derive(Clone, Debug, Serialize, Deserialize)]
pub struct ReaderPlan {
    /// Short-read knob (0 = unlimited).
    #[serde(default)]
    pub max_chunk: usize,
    /// The drained source reports `Err(UnexpectedEof)` with a payload instead of `Ok(0)`:
    /// the reader must report end-of-data all the same.
    #[serde(default)]
    pub eof_error: bool,
    pub note: String,
    pub tables: Vec<Vec<TEntry>>,
    pub ops: Vec<Op>,
}

struct Ctx<'a> {
    model: ReaderModel,
    pipe: SharedPipe,
    tables: Vec<Vec<Entry<u8>>>,
    plan_tables: &'a [Vec<TEntry>],
    st: &'a mut Stats,
    violation: Option<Violation>,
    depth: usize,
    nops: usize,
    rollbacks: usize,
    ok_after_rollback: bool,
    pending_rollback: bool,
    /// The model no longer knows the position (see `judge`): stop without a verdict.
    desynced: bool,
}

fn hard_fired(pipe: &SharedPipe) -> (u64, u64) {
    let p = pipe.lock().unwrap();
    let mut hard = 0;
    let mut soft = 0;
    for (k, n) in &p.fired {
        if *k == SrcFault::Eintr {
            soft += n;
        } else {
            hard += n;
        }
    }
    (hard, soft)
}

fn class_of(r: &Result<u64, h263_rs::Error>) -> String {
    match r {
        Ok(v) => format!("Ok({v:#x})"),
        Err(e) => format!("Err({})", err_string(e)),
    }
}

fn mclass(r: &Result<u64, MErr>) -> String {
    match r {
        Ok(v) => format!("Ok({v:#x})"),
        Err(MErr::Eof) => "Err(EndOfData)".into(),
        Err(MErr::Internal) => "Err(InternalDecoderError)".into(),
    }
}

macro_rules! typed {
    ($r:expr, $m:ident, $ty:expr, $n:expr) => {
        match $ty {
            Ty::U8 => $r.$m::<u8>($n).map(|v| v as u64),
            Ty::U16 => $r.$m::<u16>($n).map(|v| v as u64),
            Ty::U32 => $r.$m::<u32>($n).map(|v| v as u64),
            Ty::U64 => $r.$m::<u64>($n),
            Ty::I16 => $r.$m::<i16>($n).map(|v| v as u16 as u64),
            Ty::I32 => $r.$m::<i32>($n).map(|v| v as u32 as u64),
            Ty::I64 => $r.$m::<i64>($n).map(|v| v as u64),
        }
    };
}

impl<'a> Ctx<'a> {
    fn fail(&mut self, class: &str, detail: String) {
        if self.violation.is_none() {
            self.violation = Some(Violation { class: class.to_string(), detail });
        }
    }

    /// Compare a real result with the model's; `hard` = a hard source fault
    /// fired during the operation (then a matching I/O error is also fine).
    fn judge(&mut self, what: &str, real: &Result<u64, h263_rs::Error>, model: &Result<u64, MErr>, hard: bool) -> bool {
        let rc = class_of(real);
        let mc = mclass(model);
        self.st.hs(&rc);
        if rc == mc {
            return true;
        }
        if *model == Err(MErr::Internal) {
            // An invalid request (width larger than the type, broken VLC table) is outside
            // the statement: any error value is fine (nothing consumed); if the reader
            // answers Ok the model cannot know what was consumed, so the run ends unjudged.
            if real.is_err() {
                return false;
            }
            self.st.inc("invalid_request_answered_ok_run_ended");
            self.desynced = true;
            return false;
        }
        if hard {
            if let Err(h263_rs::Error::UnhandledIoError(_)) = real {
                self.st.inc("io_error_surfaced");
                return false; // legitimately failed: nothing consumed
            }
        }
        let phase = self.model.pos % 8;
        self.fail(
            &format!("reader: {} disagrees with the bit-vector model", what.split('(').next().unwrap_or(what)),
            format!("{what} at bit {} (phase {phase}, {} bytes delivered, txn depth {}): reader returned {rc}, model expects {mc}", self.model.pos, self.model.data.len(), self.depth),
        );
        false
    }

    /// Execute `ops`; returns false if the enclosing closure must return Err
    /// now (a propagated failure) — or a violation was found.
    fn run(&mut self, r: &mut Reader, ops: &[Op], propagate: bool, in_look: bool) -> bool {
        for op in ops {
            if self.violation.is_some() || self.desynced {
                return false;
            }
            self.nops += 1;
            self.st.add("steps", 1);
            let (h0, _) = hard_fired(&self.pipe);
            let phase = self.model.pos % 8;
            let mut failed = false;
            match op {
                Op::Peek { ty, n } | Op::Read { ty, n } | Op::PeekS { ty, n } | Op::ReadS { ty, n } => {
                    let signed = matches!(op, Op::PeekS { .. } | Op::ReadS { .. });
                    let consume = matches!(op, Op::Read { .. } | Op::ReadS { .. });
                    let real = match (signed, consume) {
                        (false, false) => typed!(r, peek_bits, *ty, *n),
                        (false, true) => typed!(r, read_bits, *ty, *n),
                        (true, false) => typed!(r, peek_signed_bits, *ty, *n),
                        (true, true) => typed!(r, read_signed_bits, *ty, *n),
                    };
                    let m = if signed { self.model.peek_signed(*n, ty.width()) } else { self.model.peek(*n, ty.width()) };
                    let hard = hard_fired(&self.pipe).0 > h0;
                    let name = format!("{}{}_bits::<{:?}>({n})", if consume { "read" } else { "peek" }, if signed { "_signed" } else { "" }, ty);
                    if self.judge(&name, &real, &m, hard) {
                        if consume && m.is_ok() {
                            let _ = self.model.skip(*n);
                        }
                        if m.is_ok() && self.pending_rollback && *n > 0 {
                            self.ok_after_rollback = true;
                        }
                        if m.is_err() {
                            self.st.inc(if m == Err(MErr::Eof) { "probe.read_straddling_end_of_data" } else { "probe.width_exceeds_type" });
                        }
                    }
                    failed = real.is_err();
                    if *n == 0 {
                        self.st.inc("probe.zero_bit_read");
                    }
                    self.st.states.insert(fnv1a(format!("{phase}/{signed}/{consume}/{n}/{}", real.is_ok()).as_bytes()));
                }
                Op::Skip { n } => {
                    let real = r.skip_bits(*n).map(|_| 0u64);
                    let m = if self.model.pos + *n as usize > self.model.avail() { Err(MErr::Eof) } else { Ok(0) };
                    let hard = hard_fired(&self.pipe).0 > h0;
                    if self.judge(&format!("skip_bits({n})"), &real, &m, hard) && m.is_ok() {
                        let _ = self.model.skip(*n);
                    }
                    failed = real.is_err();
                }
                Op::ReadU8 => {
                    let real = r.read_u8().map(|v| v as u64);
                    let m = self.model.peek(8, 8);
                    let hard = hard_fired(&self.pipe).0 > h0;
                    if self.judge("read_u8()", &real, &m, hard) && m.is_ok() {
                        let _ = self.model.skip(8);
                    }
                    failed = real.is_err();
                }
                Op::StartCode { in_error } => {
                    let real = r.recognize_start_code(*in_error);
                    let hard = hard_fired(&self.pipe).0 > h0;
                    self.judge_start_code(*in_error, &real, hard);
                    failed = real.is_err();
                }
                Op::Vlc { table } => {
                    let t = self.tables[*table % self.tables.len()].clone();
                    // model walk
                    let pt = &self.plan_tables[*table % self.plan_tables.len()];
                    let mut idx = 0usize;
                    let mut k = 0usize;
                    let m: Result<u64, MErr> = loop {
                        match pt.get(idx) {
                            None => break Err(MErr::Internal),
                            Some(TEntry::End(v)) => break Ok(*v as u64),
                            Some(TEntry::Fork(z, o)) => {
                                if self.model.pos + k >= self.model.avail() {
                                    break Err(MErr::Eof);
                                }
                                idx = if self.model.bit(self.model.pos + k) == 0 { *z } else { *o };
                                k += 1;
                                if k > 64 {
                                    break Err(MErr::Internal);
                                }
                            }
                        }
                    };
                    // the position after a failed read_vlc is documented as undefined:
                    // always run it inside its own transaction
                    let real = r.with_transaction(|r| r.read_vlc(&t[..])).map(|v| v as u64);
                    let hard = hard_fired(&self.pipe).0 > h0;
                    if self.judge(&format!("read_vlc(table {table})"), &real, &m, hard) && m.is_ok() {
                        let _ = self.model.skip(k as u32);
                        self.st.inc("probe.vlc_decoded");
                    }
                    failed = real.is_err();
                }
                Op::Commit => {
                    if !in_look {
                        r.commit();
                        self.st.inc(&format!("probe.commit_at_phase_{phase}"));
                        self.st.hs("commit");
                    }
                }
                Op::Txn { body, end, propagate: prop } => {
                    let cp = self.model.pos;
                    self.depth += 1;
                    let mut body_ok = true;
                    let res = r.with_transaction(|r| {
                        body_ok = self.run(r, body, *prop, in_look);
                        if !body_ok || *end != End::Ok {
                            Err(h263_rs::Error::InvalidBitstream)
                        } else {
                            Ok(7u8)
                        }
                    });
                    self.depth -= 1;
                    let expect_ok = body_ok && *end == End::Ok;
                    if res.is_ok() != expect_ok && self.violation.is_none() {
                        self.fail("reader: with_transaction did not return the closure's result", format!("closure returned ok={expect_ok}, with_transaction returned {:?}", res.as_ref().map_err(err_string)));
                    }
                    if !expect_ok {
                        self.model.pos = cp;
                        self.rollbacks += 1;
                        self.pending_rollback = true;
                        self.st.inc("probe.failed_transaction_rolled_back");
                    }
                    failed = !expect_ok;
                }
                Op::Union { body, end, propagate: prop } => {
                    let cp = self.model.pos;
                    self.depth += 1;
                    let mut body_ok = true;
                    let res = r.with_transaction_union(|r| {
                        body_ok = self.run(r, body, *prop, in_look);
                        if !body_ok || *end == End::Err {
                            Err(h263_rs::Error::InvalidBitstream)
                        } else if *end == End::None {
                            Ok(None)
                        } else {
                            Ok(Some(7u8))
                        }
                    });
                    self.depth -= 1;
                    let kept = body_ok && *end == End::Ok;
                    let shape_ok = match (&res, body_ok, *end) {
                        (Ok(Some(7)), true, End::Ok) => true,
                        (Ok(None), true, End::None) => true,
                        (Err(_), false, _) | (Err(_), true, End::Err) => true,
                        _ => false,
                    };
                    if !shape_ok && self.violation.is_none() {
                        self.fail("reader: with_transaction_union did not return the closure's result", format!("end={end:?} body_ok={body_ok}, got {:?}", res.as_ref().map_err(err_string)));
                    }
                    if !kept {
                        self.model.pos = cp;
                        self.rollbacks += 1;
                        self.pending_rollback = true;
                        self.st.inc(if *end == End::None && body_ok { "probe.union_none_rolled_back" } else { "probe.failed_transaction_rolled_back" });
                    }
                    failed = res.is_err();
                }
                Op::Look { body } => {
                    let cp = self.model.pos;
                    self.depth += 1;
                    let res = r.with_lookahead(|r| {
                        self.run(r, body, false, true);
                        Ok(1u8)
                    });
                    self.depth -= 1;
                    self.model.pos = cp;
                    self.rollbacks += 1;
                    self.pending_rollback = true;
                    self.st.inc("probe.lookahead");
                    if res.is_err() && self.violation.is_none() {
                        self.fail("reader: with_lookahead failed", format!("{:?}", res.map_err(|e| err_string(&e))));
                    }
                }
                Op::Deliver { bytes } => {
                    self.pipe.lock().unwrap().data.extend_from_slice(bytes);
                    self.model.data.extend_from_slice(bytes);
                    self.st.inc("fault.late_delivery.fired");
                }
                Op::Arm { n, kind } => {
                    let mut p = self.pipe.lock().unwrap();
                    let at = p.reads + n;
                    p.armed.push((at, *kind));
                }
            }
            if failed && propagate && self.depth > 0 {
                return false;
            }
        }
        self.violation.is_none()
    }

    fn judge_start_code(&mut self, in_error: bool, real: &Result<Option<u32>, h263_rs::Error>, hard: bool) {
        let pos = self.model.pos;
        let realign = self.model.realign();
        let desc = format!("recognize_start_code({in_error}) at bit {pos} (phase {}, {} bytes delivered)", pos % 8, self.model.data.len());
        self.st.hs(&format!("{:?}", real.as_ref().map_err(err_string)));
        match real {
            Ok(Some(k)) => {
                let k = *k as usize;
                self.st.inc(&format!("probe.start_code_after_{}_stuffing_bits", k.min(9)));
                if self.model.start_code_at(pos + k) != Some(true) {
                    return self.fail("reader: start code reported where none begins", format!("{desc}: Some({k}) but no start code begins at bit {}", pos + k));
                }
                for j in 0..k {
                    if self.model.start_code_at(pos + j) == Some(true) {
                        return self.fail("reader: start code reported is not the nearest one", format!("{desc}: Some({k}) but one begins at offset {j}"));
                    }
                }
                if !in_error && k > 8 {
                    self.fail("reader: start code search looked more than one byte ahead", format!("{desc}: Some({k})"));
                }
            }
            Ok(None) => {
                if in_error {
                    return self.fail("reader: start code search in error mode returned None", desc);
                }
                for j in 0..=realign {
                    if self.model.start_code_at(pos + j) == Some(true) {
                        return self.fail("reader: start code within the stuffing window not recognised", format!("{desc}: None but a start code begins at offset {j} (window 0..={realign})"));
                    }
                }
                self.st.inc("probe.start_code_none");
            }
            Err(e) => {
                let is_eof = e.is_eof_error();
                if !is_eof {
                    if hard && matches!(e, h263_rs::Error::UnhandledIoError(_)) {
                        return;
                    }
                    return self.fail("reader: start code search failed with an unexpected error", format!("{desc}: {}", err_string(e)));
                }
                if hard {
                    return;
                }
                self.st.inc("probe.start_code_end_of_data");
                // End-of-data is a right answer whenever one of the offsets the search may
                // examine (0..=byte boundary, plus the one further bit the statement's "one
                // byte of stuffing" allows) does not have 17 delivered bits, provided no
                // complete start code begins before that offset.
                let limit = if in_error { usize::MAX } else { realign + 1 };
                let mut j = 0;
                loop {
                    if pos + j + 17 > self.model.avail() {
                        return; // data ends here: eof is legitimate
                    }
                    if self.model.start_code_at(pos + j) == Some(true) {
                        return self.fail("reader: end-of-data reported although a start code is available", format!("{desc}: Err(eof) but a complete start code begins at offset {j}"));
                    }
                    if j >= limit {
                        break;
                    }
                    j += 1;
                }
                self.fail("reader: end-of-data reported although enough data was available", desc);
            }
        }
    }
}

fn conv_table(t: &[TEntry]) -> Vec<Entry<u8>> {
    t.iter()
        .map(|e| match e {
            TEntry::End(v) => Entry::End(*v),
            TEntry::Fork(a, b) => Entry::Fork(*a, *b),
        })
        .collect()
}

pub fn exec_reader_plan(plan: &ReaderPlan, st: &mut Stats) -> Option<Violation> {
    let pipe = new_pipe();
    let mut reader: Reader = H263Reader::from_source(SimSource::new(pipe.clone()));
    let mut plan_tables = plan.tables.clone();
    if plan_tables.is_empty() {
        plan_tables.push(vec![TEntry::End(0)]);
    }
    let tables: Vec<Vec<Entry<u8>>> = plan_tables.iter().map(|t| conv_table(t)).collect();
    let mut ctx = Ctx {
        model: ReaderModel::default(),
        pipe: pipe.clone(),
        tables,
        plan_tables: &plan_tables,
        st,
        violation: None,
        depth: 0,
        nops: 0,
        rollbacks: 0,
        ok_after_rollback: false,
        pending_rollback: false,
        desynced: false,
    };
    pipe.lock().unwrap().budget = 1_000_000;
    if plan.max_chunk > 0 {
        pipe.lock().unwrap().max_chunk = plan.max_chunk;
    }
    if plan.eof_error {
        pipe.lock().unwrap().eof_as_error = true;
        ctx.st.inc("probe.source_reports_its_end_as_an_error");
    }
    let r = guarded(|| {
        ctx.run(&mut reader, &plan.ops, false, false);
    });
    let nops = ctx.nops;
    let nontrivial = ctx.rollbacks > 0 && ctx.ok_after_rollback;
    let v = ctx.violation.take();
    let st = ctx.st;
    st.add("evaluations", nops as u64);
    {
        let mut p = pipe.lock().unwrap_or_else(|e| e.into_inner());
        let fired: Vec<_> = p.fired.drain(..).collect();
        for (k, n) in fired {
            st.add(&format!("fault.src_{k:?}.fired"), n);
        }
        st.add("fault.eof_for_now.fired", p.eof_reads);
    }
    if nontrivial {
        st.distinct.insert(fnv1a(serde_json::to_string(&plan.ops).unwrap_or_default().as_bytes()));
    }
    match r {
        Err(p) => Some(Violation { class: panic_class(&p), detail: format!("reader operation panicked after {nops} operations: {p}") }),
        Ok(()) => v,
    }
}

// ---- generation ----------------------------------------------------------------

fn gen_source_bytes(rng: &mut Rng, n: usize) -> Vec<u8> {
    let mut b = rng.bytes(n);
    match rng.below(5) {
        0 => {}
        1 => {
            // plant a start code at a random bit phase
            if n >= 4 {
                let at = rng.usize(n - 3);
                let phase = rng.usize(8);
                // 16 zeros + 1 starting at bit at*8+phase
                let start = at * 8 + phase;
                for i in 0..17 {
                    let bit = start + i;
                    if bit / 8 < n {
                        if i < 16 {
                            b[bit / 8] &= !(0x80 >> (bit % 8));
                        } else {
                            b[bit / 8] |= 0x80 >> (bit % 8);
                        }
                    }
                }
            }
        }
        2 => {
            for x in b.iter_mut() {
                if rng.chance(2, 3) {
                    *x = 0;
                }
            }
        }
        3 => {
            for x in b.iter_mut() {
                if rng.chance(1, 2) {
                    *x = 0xFF;
                }
            }
        }
        _ => {
            if n >= 3 {
                let at = rng.usize(n - 2);
                b[at] = 0;
                b[at + 1] = 0;
                b[at + 2] = 0x80 >> rng.usize(8);
            }
        }
    }
    b
}

fn gen_table(rng: &mut Rng) -> Vec<TEntry> {
    // random prefix-free code tree with 2..=8 leaves, entries in random layout
    let leaves = 2 + rng.usize(7);
    // build as nested structure then flatten
    #[derive(Clone)]
    enum N {
        L(u8),
        F(Box<N>, Box<N>),
    }
    let mut nodes: Vec<N> = (0..leaves).map(|i| N::L(i as u8 + 1)).collect();
    while nodes.len() > 1 {
        let a = nodes.remove(rng.usize(nodes.len()));
        let b = nodes.remove(rng.usize(nodes.len()));
        nodes.push(N::F(Box::new(a), Box::new(b)));
    }
    let mut out: Vec<TEntry> = Vec::new();
    fn flat(n: &N, out: &mut Vec<TEntry>) -> usize {
        let me = out.len();
        match n {
            N::L(v) => out.push(TEntry::End(*v)),
            N::F(a, b) => {
                out.push(TEntry::Fork(0, 0));
                let ia = flat(a, out);
                let ib = flat(b, out);
                out[me] = TEntry::Fork(ia, ib);
            }
        }
        me
    }
    flat(&nodes[0], &mut out);
    if rng.chance(1, 12) {
        // a broken table: one fork points outside
        let n = out.len();
        if let Some(TEntry::Fork(_, b)) = out.iter_mut().find(|e| matches!(e, TEntry::Fork(..))) {
            *b = n + 3;
        }
    }
    out
}

fn gen_n(rng: &mut Rng) -> u32 {
    match rng.below(10) {
        0 => 0,
        1 => 1,
        2 => *rng.pick(&[7u32, 8, 9, 15, 16, 17, 31, 32, 33]),
        3 => rng.range(0, 66) as u32,
        _ => rng.range(1, 24) as u32,
    }
}

fn gen_leaf(rng: &mut Rng, ntables: usize) -> Op {
    let ty = *rng.pick(&Ty::ALL);
    match rng.below(16) {
        0 | 1 => Op::Peek { ty, n: gen_n(rng) },
        2..=4 => Op::Read { ty, n: gen_n(rng) },
        5 => Op::PeekS { ty, n: gen_n(rng) },
        6 | 7 => Op::ReadS { ty, n: gen_n(rng) },
        8 | 9 => {
            // skips are not limited by a type's width: occasionally hundreds or thousands of bits
            let n = if rng.chance(1, 6) { *rng.pick(&[65u32, 100, 511, 512, 513, 1000, 2047, 4000]) + rng.below(9) as u32 } else { gen_n(rng) };
            Op::Skip { n }
        }
        10 => Op::ReadU8,
        11 | 12 => Op::StartCode { in_error: rng.chance(1, 4) },
        _ => Op::Vlc { table: rng.usize(ntables.max(1)) },
    }
}

fn gen_ops(rng: &mut Rng, budget: &mut usize, depth: usize, ntables: usize, commit_ok: bool, remaining_src: &mut Vec<u8>) -> Vec<Op> {
    let mut ops = Vec::new();
    let n = 1 + rng.usize(if depth == 0 { 24 } else { 5 });
    for _ in 0..n {
        if *budget == 0 {
            break;
        }
        *budget -= 1;
        let r = rng.below(100);
        if r < 60 || depth >= 3 {
            ops.push(gen_leaf(rng, ntables));
        } else if r < 72 {
            let end = *rng.pick(&[End::Ok, End::Ok, End::Err]);
            let propagate = rng.chance(2, 3);
            let inner_commit = commit_ok && end == End::Ok && !propagate;
            let body = gen_ops(rng, budget, depth + 1, ntables, inner_commit, remaining_src);
            ops.push(Op::Txn { body, end, propagate });
        } else if r < 80 {
            let end = *rng.pick(&[End::Ok, End::None, End::Err]);
            let propagate = rng.chance(2, 3);
            let inner_commit = commit_ok && end == End::Ok && !propagate;
            let body = gen_ops(rng, budget, depth + 1, ntables, inner_commit, remaining_src);
            ops.push(Op::Union { body, end, propagate });
        } else if r < 86 {
            let body = gen_ops(rng, budget, depth + 1, ntables, false, remaining_src);
            ops.push(Op::Look { body });
        } else if r < 91 {
            if commit_ok {
                ops.push(Op::Commit);
            }
        } else if r < 97 {
            if !remaining_src.is_empty() {
                let k = 1 + rng.usize(remaining_src.len().min(if remaining_src.len() > 60 { 90 } else { 6 }));
                let bytes: Vec<u8> = remaining_src.drain(..k).collect();
                ops.push(Op::Deliver { bytes });
            }
        } else {
            let kind = *rng.pick(&[SrcFault::Eintr, SrcFault::Eintr, SrcFault::TimedOut, SrcFault::ConnReset, SrcFault::Other, SrcFault::WouldBlock]);
            ops.push(Op::Arm { n: 1 + rng.below(4), kind });
        }
    }
    ops
}

fn sweep_plan(phase: u32, src: Vec<u8>, note: &str) -> ReaderPlan {
    // Every operation x every width at one start phase, each inside a look-ahead
    // so that the position stays put; then the consuming forms, each followed by
    // a verifying peek, inside failing transactions.
    let mut ops = vec![Op::Deliver { bytes: src }, Op::Skip { n: phase }];
    for n in 0..=66u32 {
        for ty in Ty::ALL {
            ops.push(Op::Look { body: vec![Op::Peek { ty, n }, Op::PeekS { ty, n }] });
            ops.push(Op::Txn { body: vec![Op::Read { ty, n }, Op::Peek { ty: Ty::U32, n: 13 }], end: End::Err, propagate: false });
            ops.push(Op::Union { body: vec![Op::ReadS { ty, n }, Op::Peek { ty: Ty::U16, n: 9 }], end: End::None, propagate: false });
        }
        ops.push(Op::Look { body: vec![Op::Skip { n }, Op::Peek { ty: Ty::U32, n: 17 }, Op::StartCode { in_error: false }] });
    }
    ops.push(Op::StartCode { in_error: false });
    ops.push(Op::StartCode { in_error: true });
    ReaderPlan { max_chunk: 0, eof_error: false, note: format!("sweep: phase {phase}, {note}"), tables: vec![], ops }
}

impl Property for C14 {
    type Plan = ReaderPlan;
    const ID: &'static str = "C14";
    const JUDGES_CRASHES: bool = true;
    const LEVEL: &'static str = "exploration";
    const RULE: &'static str = "seeded operation histories (up to 64 operations: peek/read/signed/skip at widths 0..=66 into 7 integer types, read_u8, read_vlc over generated prefix-free tables, recognize_start_code, commit, nested with_transaction / with_transaction_union / with_lookahead ending Ok/Err/None with and without `?` propagation) over sources of 0..48 bytes (planted start codes at all bit phases, zero and 0xFF runs) delivered in pieces during the run (one history in 1000: a source of 66-136 KB, beginning with look-aheads / failing transactions that buffer more than 64 KiB or consume more than 4 KiB), with EINTR and hard I/O errors armed on source reads, one source in six reporting its end as an UnexpectedEof error with a payload instead of Ok(0); plus (a) a systematic sweep of every start phase x every operation x every width 0..=66 x seven types and (b) a small-scope ENUMERATION of every sequence of 2 (quick) / 3 (thorough) operations from a 14-operation alphabet at all 8 start phases over 3 short sources, each on a fresh reader. evaluations = reader operations executed and compared with the bit-vector model. A history is non-trivial if it contains at least one rollback (failed transaction, None union, look-ahead) followed by a successful read of >= 1 bit; distinct by operation sequence.";
    fn runs(tier: Tier) -> u64 {
        match tier {
            Tier::Quick => 300_000,
            Tier::Thorough => 6_000_000,
        }
    }
    fn generate(rng: &mut Rng, _tier: Tier) -> ReaderPlan {
        // one history in 1000 runs over a HUGE source (66-136 KB) and begins with a long
        // look-ahead or failing transaction that pulls more than 64 KiB into the reader's
        // buffer, and/or a failing transaction that consumes more than 4 KiB: buffer
        // management thresholds must not change what the reader returns
        let huge = rng.chance(1, 1000);
        let nsrc = if huge { 66_000 + rng.usize(70_000) } else { match rng.below(12) {
            0 | 1 => 0,
            2 | 3 => rng.usize(4),
            4 => 100 + rng.usize(700), // room for skips of hundreds of bits that run dry part-way
            _ => rng.usize(49),
        } };
        let mut src = gen_source_bytes(rng, nsrc);
        let nsrc_note = nsrc;
        let ntables = 1 + rng.usize(3);
        let tables: Vec<Vec<TEntry>> = (0..ntables).map(|_| gen_table(rng)).collect();
        let mut ops = Vec::new();
        // initial delivery
        let first = if huge || rng.chance(2, 3) { src.len() } else { rng.usize(src.len() + 1) };
        let head: Vec<u8> = src.drain(..first).collect();
        ops.push(Op::Deliver { bytes: head });
        if rng.chance(1, 2) {
            ops.push(Op::Skip { n: rng.below(8) as u32 });
        }
        if huge {
            for _ in 0..1 + rng.usize(2) {
                let body = match rng.below(3) {
                    0 => vec![Op::Skip { n: ((65_600 + rng.usize(nsrc - 65_900)) * 8 + rng.usize(8)) as u32 }, Op::Peek { ty: Ty::U16, n: 9 }],
                    1 => vec![Op::StartCode { in_error: true }],
                    _ => vec![Op::Skip { n: ((4_096 + rng.usize(9_000)) * 8 + rng.usize(8)) as u32 }, Op::Read { ty: Ty::U8, n: 5 }],
                };
                ops.push(if rng.bool() { Op::Look { body } } else { Op::Txn { body, end: End::Err, propagate: false } });
                ops.push(Op::Read { ty: Ty::U16, n: 1 + rng.below(15) as u32 });
                if rng.bool() {
                    ops.push(Op::Commit);
                    ops.push(Op::Peek { ty: Ty::U32, n: 32 });
                }
            }
        }
        let mut budget = 4 + rng.usize(60);
        while budget > 0 {
            let more = gen_ops(rng, &mut budget, 0, ntables, true, &mut src);
            ops.extend(more);
        }
        ReaderPlan { max_chunk: *rng.pick(&[0usize, 0, 1, 2, 3]), note: format!("{} source bytes, {} tables", nsrc, ntables), tables, ops, eof_error: rng.chance(1, 6) }
    }
    fn execute(plan: &ReaderPlan, st: &mut Stats) -> Option<Violation> {
        st.sample(|| json!({"note": plan.note, "ops": plan.ops.iter().take(12).collect::<Vec<_>>()}));
        exec_reader_plan(plan, st)
    }
    fn shrink(plan: &ReaderPlan) -> Vec<ReaderPlan> {
        let mut out = Vec::new();
        for ops in drop_chunks(&plan.ops) {
            let mut c = plan.clone();
            c.ops = ops;
            out.push(c);
        }
        // flatten / simplify nested bodies, shrink deliveries
        for (i, op) in plan.ops.iter().enumerate() {
            match op {
                Op::Txn { body, .. } | Op::Union { body, .. } | Op::Look { body } => {
                    let mut c = plan.clone();
                    c.ops.splice(i..=i, body.iter().cloned());
                    out.push(c);
                    for b in drop_chunks(body) {
                        let mut c = plan.clone();
                        match &mut c.ops[i] {
                            Op::Txn { body, .. } | Op::Union { body, .. } | Op::Look { body } => *body = b,
                            _ => {}
                        }
                        out.push(c);
                    }
                }
                Op::Deliver { bytes } if bytes.len() > 1 => {
                    let mut c = plan.clone();
                    if let Op::Deliver { bytes: b } = &mut c.ops[i] {
                        b.truncate(bytes.len() / 2);
                    }
                    out.push(c);
                    let mut c = plan.clone();
                    if let Op::Deliver { bytes: b } = &mut c.ops[i] {
                        for x in b.iter_mut() {
                            *x = 0;
                        }
                    }
                    if c.ops[i] != plan.ops[i] {
                        out.push(c);
                    }
                }
                _ => {}
            }
        }
        out
    }
    fn assumptions() -> Vec<String> {
        vec![
            "model R is a plain bit vector with an absolute position; commit has no logical effect".into(),
            "read_vlc is always run inside its own transaction because its doc leaves the position undefined on error".into(),
            "commit is only generated where the API allows it (top level, or inside closures that return Ok and swallow errors; never inside a look-ahead)".into(),
            "when a hard I/O fault fired during an operation, an I/O error result is accepted (nothing consumed); otherwise results must equal the model's".into(),
            "start-code oracle is as loose as the statement: Some(k) needs a real nearest start code with k <= 8; None needs none beginning up to the byte boundary".into(),
        ]
    }
    fn probe_names() -> Vec<&'static str> {
        vec![
            "source_reports_its_end_as_an_error",
            "read_straddling_end_of_data",
            "zero_bit_read",
            "failed_transaction_rolled_back",
            "union_none_rolled_back",
            "lookahead",
            "vlc_decoded",
            "commit_at_phase_0",
            "commit_at_phase_1",
            "commit_at_phase_2",
            "commit_at_phase_3",
            "commit_at_phase_4",
            "commit_at_phase_5",
            "commit_at_phase_6",
            "commit_at_phase_7",
            "start_code_after_0_stuffing_bits",
            "start_code_after_1_stuffing_bits",
            "start_code_after_2_stuffing_bits",
            "start_code_after_3_stuffing_bits",
            "start_code_after_4_stuffing_bits",
            "start_code_after_5_stuffing_bits",
            "start_code_after_6_stuffing_bits",
            "start_code_after_7_stuffing_bits",
            "start_code_none",
            "start_code_end_of_data",
        ]
    }
    fn sweeps(tier: Tier) -> Vec<ReaderPlan> {
        let mut v = Vec::new();
        // Small-scope enumeration: EVERY sequence of `len` operations from a small
        // alphabet, at every start phase, over three short sources, each on a fresh
        // reader (the phase x buffer-state space the random histories sample).
        let alphabet: Vec<Op> = vec![
            Op::Read { ty: Ty::U8, n: 1 },
            Op::Read { ty: Ty::U16, n: 9 },
            Op::Read { ty: Ty::U32, n: 17 },
            Op::ReadS { ty: Ty::I16, n: 5 },
            Op::Peek { ty: Ty::U32, n: 24 },
            Op::Skip { n: 7 },
            Op::Skip { n: 8 },
            Op::Commit,
            Op::Txn { body: vec![Op::Read { ty: Ty::U16, n: 11 }], end: End::Err, propagate: true },
            Op::Txn { body: vec![Op::Read { ty: Ty::U8, n: 3 }, Op::Commit], end: End::Ok, propagate: false },
            Op::Union { body: vec![Op::Skip { n: 13 }], end: End::None, propagate: true },
            Op::Look { body: vec![Op::Read { ty: Ty::U32, n: 20 }] },
            Op::StartCode { in_error: false },
            Op::Deliver { bytes: vec![0x00, 0x01] },
        ];
        let len = if tier == Tier::Quick { 2 } else { 3 };
        let sources: [&[u8]; 3] = [&[0xA5, 0x00, 0x00, 0x80], &[0x00, 0x00, 0x40, 0xFF, 0x00], &[0xFF]];
        let total = alphabet.len().pow(len as u32);
        for (si, src) in sources.iter().enumerate() {
            for phase in 0..8u32 {
                // pack many sequences into one plan would share reader state; one plan per sequence
                for code in 0..total {
                    let mut ops = vec![Op::Deliver { bytes: src.to_vec() }, Op::Skip { n: phase }];
                    let mut c = code;
                    for _ in 0..len {
                        ops.push(alphabet[c % alphabet.len()].clone());
                        c /= alphabet.len();
                    }
                    // a final verifying read shows where the reader ended up
                    ops.push(Op::Peek { ty: Ty::U16, n: 16 });
                    ops.push(Op::Read { ty: Ty::U8, n: 2 });
                    v.push(ReaderPlan { max_chunk: 0, eof_error: false, note: format!("enumeration: source {si}, phase {phase}, sequence #{code}"), tables: vec![], ops });
                }
            }
        }
        let mut rng = Rng::new(0xC14);
        for phase in 0..8u32 {
            v.push(sweep_plan(phase, rng.bytes(24), "random source"));
            v.push(sweep_plan(phase, vec![0xA5, 0, 0, 0x80, 0xFF, 0, 0, 0x01, 0x7F], "short source with start codes"));
            v.push(sweep_plan(phase, vec![0, 0, 0x40, 0, 0, 0x20], "two near start codes"));
        }
        v
    }
}
