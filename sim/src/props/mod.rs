pub mod c01;
