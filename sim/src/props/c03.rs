//! C03 — predicted pictures equal motion-compensated reference plus residual.
//! Step-wise refinement of the REAL decoder against model P over simulated
//! histories `I (P | truncated P | rejected | cleanup)*`, with truncation
//! (eof_for_good), chunked delivery and EINTR as the injected faults.

use crate::exec::*;
use crate::framework::Property;
use crate::gen::*;
use crate::model::recon::{self, Probes};
use crate::plan::*;
use crate::rng::{fnv1a, Rng};
use crate::source::SrcFault;
use crate::spec::*;
use crate::stats::Stats;
use serde::{Deserialize, Serialize};
use serde_json::json;

pub struct C03;

#[derive(Clone, Debug, PartialEq, Eq, Serialize, Deserialize)]
pub enum Step {
    /// Deliver `pic` (only its first `cut` bytes if given) on a fresh reader in
    /// the given chunk sizes (all before the call), arm EINTR at the listed
    /// read indices, decode.
    Decode { pic: usize, cut: Option<usize>, chunks: Vec<usize>, eintr: Vec<u64> },
    /// Deliver a corrupted picture; whatever happens is not judged by C03.
    Rejected { pic: usize },
    Cleanup,
}

#[derive(Clone, Debug, Serialize, Deserialize)]
pub struct C03Plan {
    pub note: String,
    pub opts: u8,
    pub pics: Vec<PlanPic>,
    pub steps: Vec<Step>,
}

fn probes_to_stats(p: &Probes, st: &mut Stats) {
    st.add("probe.wrap_taken_positive", p.wrap_pos);
    st.add("probe.wrap_taken_negative", p.wrap_neg);
    for (i, n) in p.median_pick.iter().enumerate() {
        st.add(&format!("probe.median_is_candidate_{}", i + 1), *n);
    }
    st.add("probe.left_border_rule", p.border_left);
    st.add("probe.top_border_rule", p.border_top);
    st.add("probe.right_border_rule", p.border_right);
    for (i, n) in p.phase.iter().enumerate() {
        st.add(&format!("probe.interp_phase_{}", ["full_full", "half_full", "full_half", "half_half"][i]), *n);
    }
    for (i, n) in p.clamp_edge.iter().enumerate() {
        st.add(&format!("probe.clamp_{}", ["left", "right", "top", "bottom"][i]), *n);
    }
    st.add("probe.four_vectors_distinct", p.four_mv_distinct);
    for (i, n) in p.chroma_round.iter().enumerate() {
        st.add(&format!("probe.chroma_round_class_{i}"), *n);
    }
    st.add("tolerance_samples", p.tolerance_samples);
    st.add("probe.intra_mb_in_p_picture", p.intra_in_p);
    st.add("probe.not_coded_mb", p.not_coded);
}

fn viol(class: &str, detail: String) -> Option<Violation> {
    Some(Violation { class: format!("C03: {class}"), detail })
}

pub fn exec_c03(plan: &C03Plan, st: &mut Stats) -> Option<Violation> {
    let mut slot = Slot::new(plan.opts);
    // "the current reference picture": the last accepted picture, as observed
    // from the real decoder when it was accepted (C03 histories contain no
    // disposable pictures; which picture is the reference is C04's business).
    let mut reference: Option<Snap> = None;
    let mut probes = Probes::default();
    // standard mode: see the same flag in c04.rs
    let mut tainted = false;
    for (si, step) in plan.steps.iter().enumerate() {
        st.add("steps", 1);
        match step {
            Step::Cleanup => {
                if let Outcome::Panic(_) = slot.cleanup() {
                    st.inc("panic_not_judged_here");
                    return None;
                }
            }
            Step::Rejected { pic } => {
                let p = &plan.pics[*pic];
                if max_declared_samples(&p.bytes, plan.opts & 1 == 1) > crate::session::SCREEN_SAMPLES {
                    continue;
                }
                slot.new_reader();
                slot.feed(&p.bytes);
                let before = state_digest(&slot.state);
                let o = slot.decode();
                st.inc("evaluations");
                for t in &p.transit {
                    st.inc(&format!("fault.{}.fired", t.name()));
                }
                match o {
                    Outcome::Panic(_) => {
                        st.inc("panic_not_judged_here"); // C01's verdict
                        return None;
                    }
                    Outcome::Ok => {
                        // accepted after all: re-synchronise the model from the real decoder
                        st.inc("corrupted_picture_accepted");
                        // corruption can turn the type field into "disposable": such a
                        // picture never becomes the reference (C04's rule)
                        let disposable = hdr_last(&slot.state).map(|h| h.ptype == "DisposablePFrame").unwrap_or(false);
                        if !disposable {
                            reference = snap_last(&slot.state);
                        }
                        if plan.opts & 1 == 0 {
                            tainted = true;
                        }
                    }
                    Outcome::Err(_) => {
                        st.inc("corrupted_picture_rejected");
                        let _ = before; // a state change by a failed call is C05's verdict, not C03's
                    }
                }
            }
            Step::Decode { pic, cut, chunks, eintr } => {
                let p = &plan.pics[*pic];
                let spec = p.spec.as_ref()?;
                let (bytes, marks) = encode(spec);
                let upto = cut.unwrap_or(bytes.len()).min(bytes.len());
                slot.new_reader();
                let mut at = 0;
                for c in chunks {
                    let e = (at + c).min(upto);
                    slot.feed(&bytes[at..e]);
                    at = e;
                }
                slot.feed(&bytes[at..upto]);
                if chunks.len() > 0 {
                    st.inc("fault.chunked_delivery.fired");
                }
                for n in eintr {
                    slot.arm(*n, SrcFault::Eintr);
                }
                let o = slot.decode();
                st.inc("evaluations");
                st.add("steps", slot.reads());
                {
                    let mut pp = slot.pipe.lock().unwrap();
                    let f: u64 = pp.fired.drain(..).map(|x| x.1).sum();
                    st.add("fault.src_Eintr.fired", f);
                    pp.armed.clear();
                }
                st.hs(&o.class());
                let what = format!(
                    "step {si}: {:?} picture {}x{} ({:?}){}",
                    spec.ptype,
                    spec.width,
                    spec.height,
                    spec.flavour,
                    cut.map(|c| format!(", only the first {c} of {} bytes delivered", bytes.len())).unwrap_or_default()
                );
                if let Outcome::Panic(pp) = &o {
                    // A crash is C01's verdict.  It is a C03 violation only if a complete,
                    // valid PREDICTED picture fails to decode because of it.
                    let valid_here = reference.as_ref().map(|r| (r.width, r.height) == (spec.width, spec.height)).unwrap_or(false);
                    if cut.is_none() && spec.ptype != PType::I && !tainted && valid_here {
                        return viol("valid predicted picture not decoded (panic)", format!("{what}: {pp}"));
                    }
                    st.inc("panic_not_judged_here");
                    return None;
                }
                let present = if cut.is_some() { marks.mbs_within(upto) } else { spec.mbs.len() };
                // Does this picture need prediction?  Every macroblock that is not
                // intra-coded (not coded, inter, or missing after an early end) does.
                let count = spec.mb_count();
                let needs_ref = spec.ptype != PType::I
                    && (0..count).any(|i| !(i < present && matches!(spec.mbs.get(i), Some(MbSpec::Coded { kind, .. }) if kind_is_intra(*kind))));
                if needs_ref && reference.is_none() {
                    st.inc("probe.p_without_reference");
                    if o.is_ok() && upto * 8 >= marks.header_end {
                        return viol("predicted picture accepted although no reference exists", what);
                    }
                    continue;
                }
                if needs_ref && reference.as_ref().map(|r| (r.width, r.height) != (spec.width, spec.height)).unwrap_or(false) {
                    // an accepted corrupted picture changed the size: this picture is
                    // not a valid predicted picture in this state; not judged
                    st.inc("not_valid_in_this_state");
                    if o.is_ok() {
                        reference = snap_last(&slot.state);
                    }
                    continue;
                }
                if cut.is_some() {
                    st.inc("fault.eof_for_good.fired");
                }
                match &o {
                    Outcome::Err(e) => {
                        if cut.is_none() && tainted {
                            st.inc("not_valid_in_this_state");
                            continue;
                        }
                        if cut.is_none() && spec.ptype == PType::I {
                            // C03 speaks about predicted pictures only (intra pictures are C02,
                            // not claimed): counted, not judged
                            st.inc("intra_picture_rejected_not_judged");
                            continue;
                        }
                        if cut.is_none() {
                            return viol("valid predicted picture rejected", format!("{what}: {e}"));
                        }
                        // truncated: the statement does not say which cuts are an
                        // "early end" and which are an error; a failed call is C05's business
                        st.inc("truncated_picture_rejected");
                    }
                    Outcome::Ok => {
                        let Some(snap) = snap_last(&slot.state) else {
                            return viol("no decoded picture after a successful decode", what);
                        };
                        st.h(snap.digest());
                        let refd = if needs_ref { reference.as_ref() } else { None };
                        let mut pr = Probes::default();
                        match recon::expect_picture(refd, spec, present, &mut pr) {
                            Err(e) => {
                                // harness-side: the spec is not a valid picture for this reference
                                st.inc("model_declined");
                                st.hs(&e);
                            }
                            Ok(exp) => {
                                if let Err(e) = recon::compare(&exp, &snap) {
                                    if spec.ptype == PType::I {
                                        // intra reconstruction is C02 (not claimed); the real output
                                        // still serves as the reference of the next step
                                        st.inc("intra_picture_differs_from_model_not_judged");
                                        st.hs(&e);
                                        reference = Some(snap);
                                        continue;
                                    }
                                    let class = if cut.is_some() {
                                        "picture after an early end of data differs from the model"
                                    } else {
                                        "predicted picture differs from the model"
                                    };
                                    return viol(class, format!("{what}; {present} of {} macroblocks present: {e}", spec.mb_count()));
                                }
                                st.inc("pictures_matching_model");
                                if cut.is_some() {
                                    let n = spec.mb_count();
                                    st.inc(if present == 0 {
                                        "probe.early_end_at_first_mb"
                                    } else if present >= n.saturating_sub(1) {
                                        "probe.early_end_at_last_mb"
                                    } else {
                                        "probe.early_end_in_the_middle"
                                    });
                                }
                                if needs_ref && exp.vectors.iter().any(|v| v.iter().any(|m| m.x != 0 || m.y != 0)) {
                                    st.distinct.insert(fnv1a(&bytes) ^ (upto as u64) << 40);
                                }
                            }
                        }
                        probes.tolerance_samples += pr.tolerance_samples;
                        add_probes(&mut probes, &pr);
                        reference = Some(snap);
                    }
                    Outcome::Panic(_) => unreachable!(),
                }
            }
        }
    }
    probes_to_stats(&probes, st);
    None
}

fn add_probes(a: &mut Probes, b: &Probes) {
    a.wrap_pos += b.wrap_pos;
    a.wrap_neg += b.wrap_neg;
    for i in 0..3 {
        a.median_pick[i] += b.median_pick[i];
        a.chroma_round[i] += b.chroma_round[i];
    }
    a.border_left += b.border_left;
    a.border_top += b.border_top;
    a.border_right += b.border_right;
    for i in 0..4 {
        a.phase[i] += b.phase[i];
        a.clamp_edge[i] += b.clamp_edge[i];
    }
    a.four_mv_distinct += b.four_mv_distinct;
    a.intra_in_p += b.intra_in_p;
    a.not_coded += b.not_coded;
}

pub fn gen_c03(rng: &mut Rng, tier: Tier) -> C03Plan {
    let opts = rng.below(4) as u8;
    let sorenson = opts & 1 == 1;
    let mut cfg = GenCfg::for_opts(rng, opts);
    let _ = sorenson;
    cfg.max_coef_sum = 6000;
    if cfg.flavour == 3 {
        // 48 macroblocks per picture: keep them cheap
        cfg.density = cfg.density.min(1);
    }
    // vectors: over-weight full range and extremes
    cfg.mv_style = *rng.pick(&[1u8, 2, 2, 3, 3, 4]);
    let class = match tier {
        Tier::Quick => *rng.pick(&[0u8, 0, 1, 3, 3]),
        Tier::Thorough => *rng.pick(&[0u8, 1, 1, 2, 3]),
    };
    let (w, h) = match rng.below(8) {
        0 => (rng.range(1, 16) as u16, rng.range(1, 16) as u16),          // one macroblock
        1 => (rng.range(1, 16) as u16, rng.range(17, 80) as u16),         // single column
        2 => (rng.range(17, 80) as u16, rng.range(1, 16) as u16),         // single row
        3 if rng.chance(1, 6) => {
            // long rows / tall columns: more than 16 macroblocks in one dimension, sizes above 255
            let long = rng.range(257, if tier == Tier::Quick { 330 } else { 420 }) as u16;
            let short = rng.range(1, 33) as u16;
            if rng.bool() { (long, short) } else { (short, long) }
        }
        _ => gen_size(rng, class),
    };
    let (w, h) = if cfg.is_sorenson() && rng.chance(1, 25) { gen_fixed_sorenson_size(rng, tier == Tier::Thorough) } else { (w, h) };
    // Rarely: a picture of more than 8192 macroblocks (thousands of macroblocks per row
    // or per column, megasamples).  Kept cheap: DC-only intra picture, sparse P pictures.
    let huge = rng.chance(1, if tier == Tier::Quick { 2500 } else { 400 });
    let (w, h) = if !huge && rng.chance(1, if tier == Tier::Quick { 800 } else { 150 }) {
        // more than 16 macroblock rows AND columns at once
        cfg.density = cfg.density.min(1);
        cfg.mb_weights[0] += 6;
        (rng.range(280, 720) as u16, rng.range(260, 576) as u16)
    } else {
        (w, h)
    };
    let (w, h) = if huge {
        cfg.density = 0;
        cfg.mb_weights = [40, 2, 1, 1, 1, 0, 1];
        cfg.stuff16 = 0;
        *rng.pick(&[(2064u16, 1024u16), (65535, 33), (40, 65535), (4097, 513), (1025, 2050)])
    } else {
        (w, h)
    };
    if w as u32 * h as u32 > 128 * 96 {
        cfg.density = cfg.density.min(1);
        cfg.mb_weights[0] += 12;
    }
    let (fl, w, h) = flavour_for(rng, &cfg, w, h);
    // Standard mode, plain-PTYPE histories: in a third of them the INTRA pictures carry a
    // PLUSPTYPE header (same fixed format) with optional modes switched on that do not
    // affect an intra picture (unrestricted vectors, advanced prediction).  The plain
    // PTYPE of the following predicted pictures switches them off again (H.263 5.1.3 /
    // 5.1.4), so those pictures are baseline pictures and the model applies unchanged.
    let fl_intra: Option<Flavour> = match &fl {
        Flavour::StdPtype { fmt, .. } if rng.chance(1, 3) => Some(Flavour::StdPlus {
            umv_unlimited: false,
            layers: None,
            hdr: Some(PlusHdr { fmt: *fmt, umv: 1 + rng.below(2) as u8, pcf: None, par: 1, epar: (0, 0), modes: if rng.bool() { 0b0_1000_0000 } else { 0 }, sss: 0, type_code: None, mpp_bits: 0, cpm: None, ufep0: false }),
        }),
        _ => None,
    };
    let mut plan = C03Plan { note: String::new(), opts, pics: Vec::new(), steps: Vec::new() };
    let mut tr = rng.byte();
    let start_with_p = rng.chance(1, 16);
    // half of the no-reference histories: every transmitted macroblock is INTRA and the
    // picture is cut at macroblock boundaries (the tail then NEEDS the missing reference)
    let intra_only_cut = start_with_p && rng.bool();
    if intra_only_cut {
        cfg.mb_weights = [0, 0, 0, 0, 3, 1, 0];
    }
    let chain = if huge { 2 } else { 1 + rng.usize(if tier == Tier::Quick { 4 } else { 8 }) };
    let mut push_pic = |plan: &mut C03Plan, p: PlanPic| -> usize {
        plan.pics.push(p);
        plan.pics.len() - 1
    };
    let delivery = |rng: &mut Rng, len: usize| -> (Vec<usize>, Vec<u64>) {
        let chunks = match rng.below(4) {
            0 => (0..rng.usize(6)).map(|_| 1 + rng.usize(len.max(1))).collect(),
            1 => vec![1; len.min(24)],
            _ => vec![],
        };
        let eintr = if rng.chance(1, 4) { (0..1 + rng.usize(3)).map(|_| 1 + rng.below(len as u64 + 1)).collect() } else { vec![] };
        (chunks, eintr)
    };
    if !start_with_p {
        tr = tr.wrapping_add(1);
        let flq = fl_intra.clone().unwrap_or_else(|| requalify(rng, &fl, w, h));
        let i = gen_textured_intra(rng, &cfg, flq, w, h, tr);
        let (pp, _) = PlanPic::from_spec(i, vec![], "textured intra picture");
        let (chunks, eintr) = delivery(rng, pp.bytes.len());
        let pi = push_pic(&mut plan, pp);
        plan.steps.push(Step::Decode { pic: pi, cut: None, chunks, eintr });
    }
    for _ in 0..chain {
        tr = tr.wrapping_add(1 + rng.below(3) as u8);
        match rng.below(20) {
            0 => plan.steps.push(Step::Cleanup),
            1 | 2 => {
                // a corrupted picture in between
                let flq = requalify(rng, &fl, w, h);
                let s = gen_picture(rng, &cfg, flq, PType::P, w, h, tr);
                let (b, m) = encode(&s);
                let t = vec![Transit::draw(rng, b.len(), m.header_end)];
                let (pp, _) = PlanPic::from_spec(s, t, "corrupted predicted picture");
                let pi = push_pic(&mut plan, pp);
                plan.steps.push(Step::Rejected { pic: pi });
            }
            3 => {
                let flq = fl_intra.clone().unwrap_or_else(|| requalify(rng, &fl, w, h));
        let i = gen_textured_intra(rng, &cfg, flq, w, h, tr);
                let (pp, _) = PlanPic::from_spec(i, vec![], "textured intra picture");
                let (chunks, eintr) = delivery(rng, pp.bytes.len());
                let pi = push_pic(&mut plan, pp);
                plan.steps.push(Step::Decode { pic: pi, cut: None, chunks, eintr });
            }
            k => {
                let flq = requalify(rng, &fl, w, h);
                let s = gen_picture(rng, &cfg, flq, PType::P, w, h, tr);
                let (pp, marks) = PlanPic::from_spec(s, vec![], "predicted picture");
                let len = pp.bytes.len();
                // truncation (eof_for_good) after any byte of the macroblock layer
                let cut = if intra_only_cut && !marks.mbs.is_empty() {
                    // right after a whole macroblock, preferably the last one of a row
                    let cols = (w as usize + 15) / 16;
                    let rows_done = 1 + rng.usize(((marks.mbs.len() / cols.max(1)).max(1)).min(4));
                    let mbi = if rng.bool() { (rows_done * cols).min(marks.mbs.len()) } else { 1 + rng.usize(marks.mbs.len()) };
                    Some((marks.mbs[mbi - 1].2 + 7) / 8)
                } else if k < 8 {
                    let lo = (marks.header_end + 7) / 8;
                    Some(if rng.chance(1, 8) { rng.usize(len + 1) } else { lo + rng.usize(len - lo + 1).min(len - lo) })
                } else {
                    None
                };
                let (chunks, eintr) = delivery(rng, len);
                let pi = push_pic(&mut plan, pp);
                plan.steps.push(Step::Decode { pic: pi, cut, chunks, eintr });
            }
        }
    }
    plan.note = format!("opts {opts}, flavour {}, {w}x{h}, {} steps{}", cfg.flavour, plan.steps.len(), if start_with_p { ", starts without a reference" } else { "" });
    plan
}

impl Property for C03 {
    type Plan = C03Plan;
    const ID: &'static str = "C03";
    const LEVEL: &'static str = "exploration";
    const RULE: &'static str = "seeded histories `I (P | truncated P | corrupted picture | cleanup)*` on one decoder (all option sets; Sorenson v0/v1/other, standard PTYPE and PLUSPTYPE/custom size), every picture on a fresh reader, delivered whole / in chunks / byte-wise with EINTR armed; P pictures mix all seven macroblock kinds, differentials over the full -16..15.5 table with bias to the wrap and to vectors far outside every edge; truncation (eof_for_good) after any byte. Every accepted picture is compared sample for sample with model P applied to the reference snapshot taken from the real decoder. evaluations = decode calls. A case is non-trivial if it is an accepted predicted picture with at least one non-zero reconstructed vector; distinct by (picture bytes, cut position).";
    fn runs(tier: Tier) -> u64 {
        match tier {
            Tier::Quick => 40_000,
            Tier::Thorough => 1_200_000,
        }
    }
    fn generate(rng: &mut Rng, tier: Tier) -> C03Plan {
        gen_c03(rng, tier)
    }
    fn execute(plan: &C03Plan, st: &mut Stats) -> Option<Violation> {
        st.sample(|| json!({"note": plan.note, "steps": plan.steps, "pictures": plan.pics.iter().map(|p| json!({"note": p.note, "bytes": p.bytes.len()})).collect::<Vec<_>>()}));
        exec_c03(plan, st)
    }
    fn shrink(plan: &C03Plan) -> Vec<C03Plan> {
        let mut out = Vec::new();
        for steps in drop_chunks(&plan.steps) {
            let mut c = plan.clone();
            c.steps = steps;
            out.push(c);
        }
        for (i, s) in plan.steps.iter().enumerate() {
            if let Step::Decode { pic, cut, chunks, eintr } = s {
                if !chunks.is_empty() || !eintr.is_empty() {
                    let mut c = plan.clone();
                    c.steps[i] = Step::Decode { pic: *pic, cut: *cut, chunks: vec![], eintr: vec![] };
                    out.push(c);
                }
                // simplify the picture: macroblocks -> not coded, blocks -> empty, vectors -> zero
                if let Some(spec) = &plan.pics[*pic].spec {
                    for (mi, mb) in spec.mbs.iter().enumerate() {
                        if let MbSpec::Coded { blocks, mvd, stuffing, kind, .. } = mb {
                            if spec.ptype != PType::I {
                                let mut c = plan.clone();
                                c.pics[*pic].spec.as_mut().unwrap().mbs[mi] = MbSpec::NotCoded;
                                c.pics[*pic].rebuild();
                                out.push(c);
                            }
                            if blocks.iter().any(|b| !b.coefs.is_empty()) {
                                let mut c = plan.clone();
                                if let MbSpec::Coded { blocks, .. } = &mut c.pics[*pic].spec.as_mut().unwrap().mbs[mi] {
                                    for b in blocks.iter_mut() {
                                        b.coefs.clear();
                                    }
                                }
                                c.pics[*pic].rebuild();
                                out.push(c);
                            }
                            if mvd.iter().any(|v| *v != (0, 0)) || *stuffing > 0 {
                                let mut c = plan.clone();
                                if let MbSpec::Coded { mvd, stuffing, .. } = &mut c.pics[*pic].spec.as_mut().unwrap().mbs[mi] {
                                    *mvd = [(0, 0); 4];
                                    *stuffing = 0;
                                }
                                c.pics[*pic].rebuild();
                                out.push(c);
                            }
                            if kind_has_4v(*kind) {
                                let mut c = plan.clone();
                                if let MbSpec::Coded { kind, .. } = &mut c.pics[*pic].spec.as_mut().unwrap().mbs[mi] {
                                    *kind = K_INTER;
                                }
                                c.pics[*pic].rebuild();
                                out.push(c);
                            }
                        }
                    }
                }
            }
        }
        out
    }
    fn assumptions() -> Vec<String> {
        vec![
            "model P (f64, written from H.263 6.1.1/6.1.2/6.2/Annex A) is the specification; the encoder's VLC tables are frozen from the pinned commit".into(),
            "rounding tolerance: a sample may be either neighbour only if the ideal value lies within 2e-6*sum|coef| + 1e-4 of a rounding boundary; sum|coef| per block is bounded by 6000 in this workload; every use is counted (tolerance_samples)".into(),
            "each step starts from the real decoder's own previous output, so model error cannot accumulate".into(),
            "histories contain no disposable pictures: which picture is the reference is decided by C04".into(),
            "a truncated picture may be accepted (then macroblocks after the cut must be copies) or rejected; the statement does not say which cuts are which".into(),
            "pictures the encoder cannot express (PB, Annex D/F/I/J/T modes) are not covered".into(),
        ]
    }
    fn probe_names() -> Vec<&'static str> {
        vec![
            "wrap_taken_positive",
            "wrap_taken_negative",
            "median_is_candidate_1",
            "median_is_candidate_2",
            "median_is_candidate_3",
            "left_border_rule",
            "top_border_rule",
            "right_border_rule",
            "interp_phase_full_full",
            "interp_phase_half_full",
            "interp_phase_full_half",
            "interp_phase_half_half",
            "clamp_left",
            "clamp_right",
            "clamp_top",
            "clamp_bottom",
            "four_vectors_distinct",
            "chroma_round_class_0",
            "chroma_round_class_1",
            "chroma_round_class_2",
            "early_end_at_first_mb",
            "early_end_in_the_middle",
            "early_end_at_last_mb",
            "p_without_reference",
            "intra_mb_in_p_picture",
            "not_coded_mb",
        ]
    }
}
