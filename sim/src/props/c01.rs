//! C01 — decoding never crashes or hangs, whatever bytes and history.
//! Also hosts the general-purpose session generator reused by C13 and C17.

use crate::exec::*;
use crate::framework::Property;
use crate::gen::*;
use crate::plan::*;
use crate::rng::{fnv1a, Rng};
use crate::session::*;
use crate::source::SrcFault;
use crate::spec::*;
use crate::stats::Stats;
use serde_json::json;

pub struct C01;

/// Knobs that let other properties reuse the generator with another mix.
#[derive(Clone, Copy)]
pub struct Mix {
    /// Weights: [valid, valid+transit, adversarial, header+random body, raw random].
    pub input: [u32; 5],
    pub max_events: usize,
    pub max_decoders: usize,
    pub size_classes: [u32; 4],
    pub source_faults: bool,
    /// Standard-mode decoders only, and every adversarial picture is of the "PLUSPTYPE
    /// header variety" kind (OPPTYPE mode bits, UFEP = 000 inheritance): inputs whose
    /// meaning depends on carried-over header context (used by C17's inheritance worlds).
    pub hdr_bias: bool,
}

pub const MIX_C01_QUICK: Mix = Mix { input: [30, 25, 22, 13, 10], max_events: 10, max_decoders: 3, size_classes: [5, 2, 0, 3], source_faults: true, hdr_bias: false };
pub const MIX_C01_THOROUGH: Mix = Mix { input: [30, 25, 22, 13, 10], max_events: 16, max_decoders: 3, size_classes: [5, 3, 1, 3], source_faults: true, hdr_bias: false };

struct DecGen {
    opts: u8,
    cfg: GenCfg,
    w: u16,
    h: u16,
    fl: Flavour,
    tr: u8,
    has_ref: bool,
    pics_in_reader: usize,
    /// A picture that must come next on this decoder (second half of a
    /// two-picture adversarial scenario).
    pending: Option<(PicSpec, String)>,
    hdr_bias: bool,
}

fn umv_component_bits(rng: &mut Rng, style: u8) -> Vec<(u32, u8)> {
    // H.263 Table D.3 style code as this decoder reads it: "1" = zero, else
    // "0" then (bit,1)* pairs and a final (sign,0).
    let mut v = vec![(0u32, 1u8)];
    let n = if style == 0 { *rng.pick(&[0usize, 1, 5, 10, 11, 11, 11, 12]) } else { 11 };
    for _ in 0..n {
        v.push((if style != 0 || rng.chance(3, 4) { 0b11 } else { 0b01 }, 2));
    }
    v.push((if style == 1 || (style == 0 && rng.bool()) { 0b00 } else { 0b10 }, 2));
    v
}

/// Adversarially structured pictures (generator-side faults).
fn adversarial(rng: &mut Rng, g: &mut DecGen, note: &mut String) -> PicSpec {
    let ptype = if g.has_ref && rng.chance(2, 3) { PType::P } else { PType::I };
    let mut s = gen_picture(rng, &g.cfg, g.fl.clone(), ptype, g.w, g.h, g.tr);
    // header-context bias: PLUSPTYPE header variety (12) or optional-mode bits in a plain PTYPE (8)
    let kind = if g.hdr_bias { *rng.pick(&[12u64, 8]) } else { rng.below(15) };
    match kind {
        0 => {
            *note = "adversarial: more macroblocks than the picture holds".into();
            let extra = 1 + rng.usize(4);
            let v1 = s.sorenson_v1();
            let mut q = s.quant;
            for _ in 0..extra {
                let mb = gen_mb(rng, &g.cfg, ptype, v1, &mut q);
                s.mbs.push(mb);
            }
        }
        1 => {
            *note = "adversarial: fewer macroblocks than the picture holds".into();
            let keep = rng.usize(s.mbs.len().max(1));
            s.mbs.truncate(keep);
        }
        2 => {
            *note = "adversarial: zero width and/or height".into();
            if let Flavour::Sorenson { version, .. } = s.flavour {
                s.flavour = Flavour::Sorenson { version, size_code: rng.below(2) as u8 };
                match rng.below(3) {
                    0 => s.width = 0,
                    1 => s.height = 0,
                    _ => {
                        s.width = 0;
                        s.height = 0;
                    }
                }
            } else {
                s.flavour = Flavour::StdPlus { umv_unlimited: false, layers: None, hdr: None };
                s.height = 0;
                s.width = s.width.max(4) / 4 * 4;
            }
        }
        3 => {
            *note = "adversarial: predicted picture of another size than its reference".into();
            s.ptype = if rng.chance(1, 4) && s.is_sorenson() { PType::Disposable } else { PType::P };
            let cls = *rng.pick(&[0u8, 3]);
            let (nw, nh) = gen_size(rng, cls);
            let (fl, nw, nh) = flavour_for(rng, &g.cfg, nw, nh);
            s.flavour = fl;
            s.width = nw;
            s.height = nh;
            let n = s.mb_count();
            let v1 = s.sorenson_v1();
            let mut q = s.quant;
            s.mbs = (0..n).map(|_| gen_mb(rng, &g.cfg, PType::P, v1, &mut q)).collect();
        }
        4 => {
            *note = "adversarial: extreme escape levels at a high quantizer".into();
            s.quant = *rng.pick(&[31u8, 30, 17, 16]);
            let v1 = s.sorenson_v1();
            for mb in s.mbs.iter_mut() {
                if let MbSpec::Coded { blocks, .. } = mb {
                    for b in blocks.iter_mut() {
                        let lv = if v1 { *rng.pick(&[1023i16, -1023, -1024, 529, 528, -529, 64, -65]) } else { *rng.pick(&[127i16, -127, -128, 126]) };
                        b.coefs = vec![Coef { run: rng.below(63) as u8, level: lv, esc: if v1 { Esc::Force11 } else { Esc::Force } }];
                    }
                }
            }
        }
        5 => {
            *note = "adversarial: picture quantizer 0".into();
            s.quant = 0;
        }
        6 => {
            *note = "adversarial: reserved picture type / size code".into();
            if let Flavour::Sorenson { version, size_code } = s.flavour {
                if rng.bool() {
                    s.ptype = PType::Reserved3;
                } else {
                    let _ = size_code;
                    s.flavour = Flavour::Sorenson { version, size_code: 7 };
                }
            } else {
                s.flavour = Flavour::StdPtype { fmt: *rng.pick(&[0u8, 6, 7]), umv: false, sac: false, ap: false, pb: false };
            }
        }
        7 => {
            *note = "adversarial: large declared size, little data".into();
            if let Flavour::Sorenson { version, .. } = s.flavour {
                s.flavour = Flavour::Sorenson { version, size_code: 1 };
                let (w, h) = *rng.pick(&[(2048u16, 2048u16), (65535, 1), (1, 65535), (65535, 64), (4000, 1000), (1024, 17), (400, 300), (300, 400), (640, 16), (16, 640), (255, 255), (256, 256), (257, 255), (1000, 3), (3, 1000), (512, 100)]);
                s.width = w;
                s.height = h;
            } else {
                s.flavour = Flavour::StdPlus { umv_unlimited: false, layers: None, hdr: None };
                s.width = 2048;
                s.height = 1020;
            }
            s.mbs.truncate(rng.usize(6));
        }
        8 => {
            *note = "adversarial: optional-mode bits set in PTYPE".into();
            if !s.is_sorenson() {
                let (fw, fh) = STD_FIXED[0];
                s.flavour = Flavour::StdPtype { fmt: 1, umv: rng.bool(), sac: rng.chance(1, 4), ap: rng.bool(), pb: rng.chance(1, 4) };
                s.width = fw;
                s.height = fh;
                g.cfg.mv_style = 3;
                let n = s.mb_count();
                let mut q = s.quant;
                s.mbs = (0..n.min(20)).map(|_| gen_mb(rng, &g.cfg, s.ptype, false, &mut q)).collect();
            } else {
                s.tail_stuffing = 1 + rng.below(3) as u8;
            }
        }
        9 => {
            *note = "adversarial: unrestricted vectors ramp (PLUSPTYPE, unlimited range)".into();
            if !s.is_sorenson() {
                // two-picture scenario: an intra picture of the ramp's size now,
                // the ramp itself as the next picture of this decoder
                let w = *rng.pick(&[160u16, 320, 64, 16]);
                let h = *rng.pick(&[16u16, 32, 48]);
                g.fl = Flavour::StdPlus { umv_unlimited: false, layers: None, hdr: None };
                g.w = w;
                g.h = h;
                g.cfg.flavour = 4;
                let mut ramp = gen_picture(rng, &g.cfg, Flavour::StdPlus { umv_unlimited: true, layers: None, hdr: None }, PType::P, w, h, g.tr.wrapping_add(1));
                ramp.mbs.clear();
                let n = ramp.mb_count();
                let style = rng.below(3) as u8;
                for _ in 0..n {
                    // COD=0, MCBPC "1" (Inter, cbpc 00), CBPY "11" (inter: none coded), then two UMV components
                    ramp.extra_bits.push((0, 1));
                    ramp.extra_bits.push((1, 1));
                    ramp.extra_bits.push((0b11, 2));
                    ramp.extra_bits.extend(umv_component_bits(rng, style));
                    ramp.extra_bits.extend(umv_component_bits(rng, style));
                }
                g.pending = Some((ramp, note.clone()));
                s = gen_picture(rng, &g.cfg, g.fl.clone(), PType::I, w, h, g.tr);
                g.has_ref = true;
            } else {
                let k = 1 + rng.usize(40);
                s.pei = rng.bytes(k);
            }
        }
        10 => {
            *note = "adversarial: runs that leave the block / many coefficients".into();
            for mb in s.mbs.iter_mut() {
                if let MbSpec::Coded { blocks, .. } = mb {
                    for b in blocks.iter_mut() {
                        let n = 1 + rng.usize(70);
                        b.coefs = (0..n).map(|_| Coef { run: *rng.pick(&[0u8, 1, 20, 62, 63]), level: *rng.pick(&[1i16, -1, 3]), esc: Esc::Auto }).collect();
                    }
                }
            }
        }
        11 => {
            *note = "adversarial: start code (GOB header, picture header or end-of-sequence) inside the macroblock data".into();
            let keep = rng.usize(s.mbs.len() + 1);
            s.mbs.truncate(keep);
            // optional stuffing to a byte boundary is what a real encoder would insert; leave the phase random
            s.extra_bits.push((0, rng.below(8) as u8));
            s.extra_bits.push((1, 17));
            let gn = *rng.pick(&[0u32, 1, 2, 15, 17, 24, 30, 31]);
            s.extra_bits.push((gn, 5));
            // GFID(2) GQUANT(5), then more bits that look like macroblocks
            s.extra_bits.push((rng.below(4) as u32, 2));
            s.extra_bits.push((rng.below(32) as u32, 5));
            for _ in 0..rng.usize(6) {
                s.extra_bits.push((rng.next_u64() as u32, 32));
            }
        }
        12 => {
            *note = "adversarial: PLUSPTYPE header variety (fixed formats, UMV ranges, custom clock, aspect ratio, mode bits)".into();
            if !s.is_sorenson() {
                let fmt = *rng.pick(&[1u8, 2, 3, 4, 5, 5, 6, 6, 0, 7]);
                let umv = *rng.pick(&[0u8, 1, 1, 2]);
                let hdr = PlusHdr {
                    fmt,
                    umv,
                    pcf: if rng.chance(1, 4) { Some((rng.byte(), rng.below(4) as u8)) } else { None },
                    par: *rng.pick(&[1u8, 1, 2, 5, 15, 0, 9]),
                    epar: (*rng.pick(&[0u8, 1, 255]), *rng.pick(&[0u8, 1, 255])),
                    modes: if rng.chance(1, 2) { 0 } else { (rng.next_u64() & 0x1FF) as u16 & *rng.pick(&[0x1FFu16, 0x010, 0x0C0, 0x101, 0x008]) },
                    sss: rng.below(4) as u8,
                    type_code: if rng.chance(1, 5) { Some(rng.below(8) as u8) } else { None },
                    mpp_bits: if rng.chance(1, 4) { rng.below(8) as u8 } else { 0 },
                    cpm: if rng.chance(1, 6) { Some(rng.below(4) as u8) } else { None },
                    ufep0: rng.chance(1, 4),
                };
                if (1..=5).contains(&fmt) {
                    let (fw, fh) = STD_FIXED[fmt as usize - 1];
                    s.width = fw;
                    s.height = fh;
                } else {
                    s.width = ((s.width.clamp(4, 2044) as u32 + 3) / 4 * 4) as u16;
                    s.height = ((s.height.clamp(4, 1016) as u32 + 3) / 4 * 4) as u16;
                }
                s.flavour = Flavour::StdPlus { umv_unlimited: umv == 2, layers: if g.cfg.scal { Some((rng.below(16) as u8, rng.below(16) as u8)) } else { None }, hdr: Some(hdr) };
                s.ptype = if rng.chance(2, 3) { PType::P } else { PType::I };
                let n = s.mb_count().min(1 + rng.usize(12));
                let mut q = s.quant;
                s.mbs = (0..n).map(|_| gen_mb(rng, &g.cfg, s.ptype, false, &mut q)).collect();
                if umv != 0 && s.ptype == PType::P && rng.bool() {
                    // macroblocks whose vectors are written in the UMV code this header selects
                    s.mbs.clear();
                    let style = rng.below(3) as u8;
                    for _ in 0..n {
                        s.extra_bits.push((0, 1));
                        s.extra_bits.push((1, 1));
                        s.extra_bits.push((0b11, 2));
                        s.extra_bits.extend(umv_component_bits(rng, style));
                        s.extra_bits.extend(umv_component_bits(rng, style));
                    }
                }
            } else {
                s.tail_stuffing = 1 + rng.below(3) as u8;
            }
        }
        13 => {
            *note = "adversarial: flood (thousands of stuffing codewords / extension bytes at one position)".into();
            let n = *rng.pick(&[300usize, 300, 300, 300, 3000, 3000, 12_000, 40_000]);
            if rng.chance(3, 4) {
                // macroblock stuffing: COD (non-intra pictures) + the 9-bit stuffing codeword, n times,
                // in front of macroblock `at`
                let at = rng.usize(s.mbs.len() + 1);
                let tail: Vec<MbSpec> = s.mbs.split_off(at);
                let intra = s.ptype == PType::I;
                for _ in 0..n {
                    if !intra {
                        s.extra_bits.push((0, 1));
                    }
                    s.extra_bits.push((1, 9));
                }
                // the remaining macroblocks follow the flood
                let mut rest = s.clone();
                rest.mbs = tail;
                rest.extra_bits.clear();
                rest.pei.clear();
                let (bytes, m) = encode(&rest);
                for bit in m.header_end..m.total_bits {
                    s.extra_bits.push((((bytes[bit / 8] >> (7 - bit % 8)) & 1) as u32, 1));
                }
            } else {
                s.pei = rng.bytes(n.min(20_000));
            }
        }
        _ => {
            *note = "adversarial: temporal reference equal to an earlier picture's".into();
            s.tr = g.tr.wrapping_sub(1 + rng.below(2) as u8);
        }
    }
    s
}

fn header_then_random(rng: &mut Rng, g: &mut DecGen) -> Vec<u8> {
    let ptype = if g.has_ref && rng.bool() { PType::P } else { PType::I };
    let mut s = gen_picture(rng, &g.cfg, g.fl.clone(), ptype, g.w, g.h, g.tr);
    s.mbs.clear();
    let (mut bytes, m) = encode(&s);
    // keep the header bits, randomise the remainder of the last header byte and append noise
    let n = rng.usize(200) + 1;
    let noise = rng.bytes(n);
    let rem = m.header_end % 8;
    if rem != 0 {
        let last = bytes.len() - 1;
        bytes[last] |= rng.byte() >> rem;
    }
    bytes.extend_from_slice(&noise);
    bytes
}

fn raw_random(rng: &mut Rng) -> Vec<u8> {
    let n = rng.usize(120);
    let mut b = rng.bytes(n);
    match rng.below(4) {
        0 => {}
        1 => {
            // start code prefix, then noise
            let mut v = vec![0u8, 0, 0x80 | (rng.byte() & 0x7F)];
            v.append(&mut b);
            b = v;
        }
        2 => {
            let mut v = vec![0u8, 0, 0x80, rng.byte() & 3];
            v.append(&mut b);
            b = v;
        }
        _ => {
            for x in b.iter_mut() {
                if rng.chance(1, 2) {
                    *x = 0;
                }
            }
        }
    }
    b
}

/// Draw one session under `mix`.  Pictures are consistent with what each
/// decoder has seen so far unless an input kind says otherwise.
/// A rare session class: a few VERY large pictures (8-17 megasamples) on one
/// Sorenson decoder, with the session's memory screen raised accordingly.  They fit
/// in memory, so the properties cover them; they cost ~0.1-0.5 s each.
fn gen_large_session(rng: &mut Rng) -> Session {
    let mut s = Session { note: String::new(), pics: Vec::new(), events: Vec::new(), max_chunk: 0, screen: 1 << 26 };
    let opts = 1 | ((rng.below(2) as u8) << 1);
    let mut cfg = GenCfg::draw(rng, &[0, 1]);
    cfg.density = 0;
    cfg.stuff16 = 0;
    cfg.pei16 = 0;
    cfg.mb_weights = [60, 2, 1, 1, 1, 0, 1];
    let (w, h) = *rng.pick(&[(4097u16, 4097u16), (5000, 1000), (8192, 600), (600, 8192), (65535, 128), (128, 65535), (3001, 3001)]);
    let version = if cfg.flavour == 1 { 1 } else { 0 };
    let fl = Flavour::Sorenson { version, size_code: 1 };
    s.events.push(Ev::New { d: 0, opts });
    let mut push = |s: &mut Session, p: PlanPic| {
        let len = p.bytes.len();
        s.pics.push(p);
        let pi = s.pics.len() - 1;
        s.events.push(Ev::Reader { d: 0 });
        s.events.push(Ev::Feed { d: 0, pic: pi, from: 0, to: len });
        s.events.push(Ev::Decode { d: 0 });
    };
    let i = gen_picture(rng, &cfg, fl.clone(), PType::I, w, h, 1);
    push(&mut s, PlanPic::from_spec(i, vec![], "valid picture (very large)").0);
    // a predicted picture: mostly not coded, possibly truncated or corrupted
    let p = gen_picture(rng, &cfg, fl.clone(), PType::P, w, h, 2);
    let (bytes, m) = encode(&p);
    let transit = match rng.below(3) {
        0 => vec![],
        1 => vec![Transit::Truncate { len: (m.header_end / 8 + 1) + rng.usize(bytes.len() / 2 + 1) }],
        _ => vec![Transit::draw(rng, bytes.len(), m.header_end)],
    };
    push(&mut s, PlanPic::from_spec(p, transit, "valid picture through transit faults").0);
    s.note = format!("large session: {w}x{h}, {} pictures", s.pics.len());
    s
}

/// A decoder under STORE PRESSURE: either a handful of large pictures (352x288 ... 704x576)
/// or dozens of small ones, all valid, with distinct temporal references, so that whatever
/// the decoder keeps per instance (its picture store) grows well past what short sessions
/// of small pictures reach.  Used by C17: replicas of such an instance must still agree.
pub fn gen_store_pressure_session(rng: &mut Rng) -> Session {
    let mut s = Session { note: String::new(), pics: Vec::new(), events: Vec::new(), max_chunk: 0, screen: 0 };
    let opts = 1 | ((rng.below(2) as u8) << 1);
    let mut cfg = GenCfg::draw(rng, &[0, 1]);
    cfg.density = 0;
    cfg.stuff16 = 0;
    cfg.pei16 = 0;
    cfg.mb_weights = [60, 2, 1, 1, 1, 0, 1];
    let few_large = rng.chance(3, 5);
    let (w, h) = if few_large { *rng.pick(&[(352u16, 288u16), (640, 480), (704, 576), (400, 300), (1024, 64), (320, 240)]) } else { *rng.pick(&[(128u16, 96u16), (64, 48), (176, 144)]) };
    let n = if few_large { 3 + rng.usize(6) } else { 36 + rng.usize(45) };
    let version = if cfg.flavour == 1 { 1 } else { 0 };
    let fl = Flavour::Sorenson { version, size_code: 1 };
    s.events.push(Ev::New { d: 0, opts });
    let mut tr = rng.byte();
    for k in 0..n {
        tr = tr.wrapping_add(1);
        let ptype = if k == 0 || rng.chance(1, 6) { PType::I } else if rng.chance(1, 8) { PType::Disposable } else { PType::P };
        let flq = requalify(rng, &fl, w, h);
        let spec = gen_picture(rng, &cfg, flq, ptype, w, h, tr);
        let p = PlanPic::from_spec(spec, vec![], "valid picture").0;
        let len = p.bytes.len();
        s.pics.push(p);
        let pi = s.pics.len() - 1;
        s.events.push(Ev::Reader { d: 0 });
        s.events.push(Ev::Feed { d: 0, pic: pi, from: 0, to: len });
        s.events.push(Ev::Decode { d: 0 });
        if rng.chance(1, 30) {
            s.events.push(Ev::Cleanup { d: 0 });
        }
    }
    s.note = format!("store pressure: {n} valid pictures of {w}x{h} on one decoder");
    s
}

pub fn gen_session(rng: &mut Rng, mix: &Mix) -> Session {
    if mix.max_events >= 14 && rng.chance(1, 4000) {
        return gen_large_session(rng); // thorough tiers only
    }
    let ndec = 1 + rng.weighted(&[6, 3, 1][..mix.max_decoders.min(3)]);
    let mut s = Session { note: String::new(), pics: Vec::new(), events: Vec::new(), max_chunk: 0, screen: 0 };
    let mut gens: Vec<DecGen> = Vec::new();
    for d in 0..ndec {
        let opts = rng.below(4) as u8 & (if mix.hdr_bias { 0xFE } else { 0xFF });
        let sorenson = opts & 1 == 1;
        let flavours: &[u8] = if rng.chance(1, 24) {
            &[0, 1, 2, 3, 4] // occasionally the wrong flavour for the mode
        } else if sorenson {
            &[0, 1, 2]
        } else if mix.hdr_bias {
            &[3, 3, 4] // the fixed formats a plain PTYPE can name
        } else {
            &[3, 4, 4]
        };
        let mut cfg = GenCfg::draw(rng, flavours);
        cfg.scal = opts & 2 != 0 && rng.chance(7, 8);
        let class = rng.weighted(&mix.size_classes) as u8;
        let (w, h) = if cfg.is_sorenson() && rng.chance(1, 40) { gen_fixed_sorenson_size(rng, false) } else { gen_size(rng, class) };
        let (fl, w, h) = flavour_for(rng, &cfg, w, h);
        s.events.push(Ev::New { d, opts });
        gens.push(DecGen { opts, cfg, w, h, fl, tr: rng.byte(), has_ref: false, pics_in_reader: 0, pending: None, hdr_bias: mix.hdr_bias });
    }
    let nev = 1 + rng.usize(mix.max_events);
    let fresh_reader_policy = rng.below(3); // 0 always fresh, 1 mostly, 2 reuse
    for _ in 0..nev {
        let d = rng.usize(ndec);
        let g = &mut gens[d];
        if rng.chance(1, 12) {
            s.events.push(Ev::Cleanup { d });
            continue;
        }
        if rng.chance(1, 40) {
            // replace the decoder (new options, same generator state)
            let opts = if rng.bool() { g.opts } else { rng.below(4) as u8 & (if g.hdr_bias { 0xFE } else { 0xFF }) };
            g.opts = opts;
            g.has_ref = false;
            s.events.push(Ev::New { d, opts });
            continue;
        }
        g.tr = match rng.below(8) {
            0 => g.tr,
            1 => rng.byte(),
            2 => 255,
            3 => 0,
            _ => g.tr.wrapping_add(1),
        };
        let kind = if g.pending.is_some() { 9 } else { rng.weighted(&mix.input) };
        let mut note = String::new();
        let mut size_changed = false;
        let pic = match kind {
            9 => {
                let (spec, n) = g.pending.take().unwrap();
                PlanPic::from_spec(spec, Vec::new(), &n).0
            }
            0 | 1 => {
                if rng.chance(1, 10) {
                    // size change (valid only at an I picture)
                    let cls = rng.weighted(&mix.size_classes) as u8;
                    let (w, h) = gen_size(rng, cls);
                    let (fl, w, h) = flavour_for(rng, &g.cfg, w, h);
                    g.fl = fl;
                    g.w = w;
                    g.h = h;
                    size_changed = true;
                }
                let ptype = if !g.has_ref || size_changed || rng.chance(1, 5) {
                    PType::I
                } else if g.cfg.is_sorenson() && rng.chance(1, 4) {
                    PType::Disposable
                } else {
                    PType::P
                };
                let flq = requalify(rng, &g.fl, g.w, g.h);
                let spec = gen_picture(rng, &g.cfg, flq, ptype, g.w, g.h, g.tr);
                let mut transit = Vec::new();
                if kind == 1 {
                    let (bytes, m) = encode(&spec);
                    for _ in 0..1 + rng.usize(3) {
                        transit.push(Transit::draw(rng, bytes.len(), m.header_end));
                    }
                    note = "valid picture through transit faults".into();
                } else {
                    note = "valid picture".into();
                    if ptype != PType::Disposable {
                        g.has_ref = true;
                    }
                }
                PlanPic::from_spec(spec, transit, &note).0
            }
            2 => {
                let spec = adversarial(rng, g, &mut note);
                if note.starts_with("adversarial: PLUSPTYPE header variety") && rng.bool() {
                    // a fresh decoder: later headers are otherwise compared with the last
                    // picture's format and answered with "unimplemented"
                    s.events.push(Ev::New { d, opts: g.opts });
                    g.has_ref = false;
                }
                PlanPic::from_spec(spec, Vec::new(), &note).0
            }
            3 => PlanPic::raw(header_then_random(rng, g), "valid header, random body"),
            _ => PlanPic::raw(raw_random(rng), "random bytes"),
        };
        let pi = s.pics.len();
        let len = pic.bytes.len();
        s.pics.push(pic);
        // reader policy
        let fresh = match fresh_reader_policy {
            0 => true,
            1 => rng.chance(3, 4),
            _ => rng.chance(1, 4),
        } || g.pics_in_reader >= 4;
        if fresh {
            s.events.push(Ev::Reader { d });
            g.pics_in_reader = 0;
        }
        g.pics_in_reader += 1;
        // delivery policy
        match rng.below(10) {
            0 | 1 if len > 1 => {
                // two deliveries with a decode attempt in between (eof_for_now)
                let k = rng.usize(len);
                s.events.push(Ev::Feed { d, pic: pi, from: 0, to: k });
                s.events.push(Ev::Decode { d });
                s.events.push(Ev::Feed { d, pic: pi, from: k, to: len });
            }
            2 if len > 2 && len < 40 => {
                // trickle: a decode attempt after every few bytes
                let step = 1 + rng.usize(3);
                let mut at = 0;
                while at + step < len {
                    s.events.push(Ev::Feed { d, pic: pi, from: at, to: at + step });
                    s.events.push(Ev::Decode { d });
                    at += step;
                }
                s.events.push(Ev::Feed { d, pic: pi, from: at, to: len });
            }
            _ => s.events.push(Ev::Feed { d, pic: pi, from: 0, to: len }),
        }
        if mix.source_faults && rng.chance(1, 6) {
            let nf = 1 + rng.usize(2);
            for _ in 0..nf {
                let kind = *rng.pick(&[SrcFault::Eintr, SrcFault::Eintr, SrcFault::TimedOut, SrcFault::ConnReset, SrcFault::Other, SrcFault::WouldBlock, SrcFault::SpuriousEof]);
                s.events.push(Ev::Arm { d, n: 1 + rng.below(len.max(1) as u64 + 2), kind });
            }
            s.events.push(Ev::Decode { d });
            // after the faults stop, the same data must still be decodable
            s.events.push(Ev::Decode { d });
        } else {
            s.events.push(Ev::Decode { d });
        }
        if rng.chance(1, 10) {
            // one more call on an exhausted reader
            s.events.push(Ev::Decode { d });
        }
    }
    s.max_chunk = *rng.pick(&[0usize, 0, 0, 1, 2, 3, 5]);
    s.note = format!("{} decoder(s), {} picture(s), {} event(s), short reads <= {}", ndec, s.pics.len(), s.events.len(), s.max_chunk);
    s
}

/// Count the transit / generator fault kinds of the pictures that were actually fed.
pub fn count_faults(s: &Session, recs: &[Rec], st: &mut Stats) {
    for r in recs {
        if !r.is_decode || r.excluded {
            continue;
        }
        for pi in &r.fed {
            let p = &s.pics[*pi];
            for t in &p.transit {
                st.inc(&format!("fault.{}.fired", t.name()));
            }
            if p.note.starts_with("adversarial") {
                st.inc("fault.adversarial_structure.fired");
            } else if p.spec.is_none() {
                st.inc("fault.random_bytes.fired");
            }
        }
    }
}

pub fn judge_no_crash(s: &Session, recs: &[Rec], st: &mut Stats) -> Option<Violation> {
    for r in recs {
        // coverage bookkeeping
        if r.is_decode && !r.excluded {
            let mut inp = r.digest_before;
            for pi in &r.fed {
                inp = inp.rotate_left(7) ^ fnv1a(&s.pics[*pi].bytes);
            }
            if r.reads >= 6 || r.out.is_ok() {
                st.distinct.insert(inp);
            }
            let kind = r.fed.last().map(|pi| fnv1a(s.pics[*pi].note.as_bytes())).unwrap_or(0);
            st.states.insert(fnv1a(r.out.class().as_bytes()) ^ kind.rotate_left(3) ^ ((r.digest_before == 0x9E37_79B9_7F4A_7C15u64 ^ 2) as u64));
        }
        if let Outcome::Panic(p) = &r.out {
            let class = if is_budget_panic(p) { "hang: source-read step budget exceeded".to_string() } else { panic_class(p) };
            let what = if r.is_decode { "decode_next_picture" } else { "cleanup_buffers" };
            return Some(Violation {
                class,
                detail: format!("{what} panicked at event {} (decoder {}): {p}; input: {}", r.ev, r.d, r.fed.iter().map(|pi| s.pics[*pi].note.clone()).collect::<Vec<_>>().join(" + ")),
            });
        }
    }
    None
}

impl Property for C01 {
    type Plan = Session;
    const ID: &'static str = "C01";
    const JUDGES_CRASHES: bool = true;
    const LEVEL: &'static str = "exploration";
    const RULE: &'static str = "seeded sessions of 1-3 decoders (all 4 option combinations) x up to 16 events; each decode consumes a valid picture, a valid picture through 1-3 transit faults, an adversarially structured picture, random bytes behind a valid header, or raw random bytes, delivered whole / split with a call in between / trickled, with source faults armed on random reads. evaluations = decode calls actually made (size-screened inputs excluded). A case is non-trivial if the call got past the start code (>= 6 source bytes consumed) or succeeded; distinct by (decoder state digest before the call, input bytes).";
    fn runs(tier: Tier) -> u64 {
        match tier {
            Tier::Quick => 100_000,
            Tier::Thorough => 3_000_000,
        }
    }
    fn generate(rng: &mut Rng, tier: Tier) -> Session {
        gen_session(rng, if tier == Tier::Quick { &MIX_C01_QUICK } else { &MIX_C01_THOROUGH })
    }
    fn execute(plan: &Session, st: &mut Stats) -> Option<Violation> {
        let (recs, _) = run_session(plan, &SessionOpts { keep_snaps: false }, st, &mut |_, _, _| None);
        count_faults(plan, &recs, st);
        st.sample(|| json!({"note": plan.note, "events": plan.events.len(), "outcomes": recs.iter().map(|r| r.out.short()).collect::<Vec<_>>(), "first_picture": plan.pics.first().map(|p| json!({"note": p.note, "bytes": p.bytes.len()}))}));
        judge_no_crash(plan, &recs, st)
    }
    fn shrink(plan: &Session) -> Vec<Session> {
        shrink_session(plan)
    }
    fn assumptions() -> Vec<String> {
        vec![
            "harness build profile: overflow-checks, debug-assertions, panic=unwind, so every integer overflow / index / slice / division / debug_assert failure in the code under test is a caught panic".into(),
            "inputs whose header declares more than 2^22 luma samples are excluded (memory screen, model H)".into(),
            "hangs are detected by a per-call source-read budget (256 + 4 x undelivered bytes) and by the driver's per-run watchdog".into(),
            "sampling, not proof: a clean batch is evidence only".into(),
        ]
    }
    fn probe_names() -> Vec<&'static str> {
        vec![]
    }
}
