//! C15 — one decode call consumes exactly one picture of a stream.
//! Differential twin: decoder A reads N concatenated pictures from ONE reader,
//! call after call; decoder B gets a fresh reader per picture.

use crate::exec::*;
use crate::framework::Property;
use crate::gen::*;
use crate::plan::*;
use crate::rng::{fnv1a, Rng};
use crate::source::SrcFault;
use crate::spec::*;
use crate::stats::Stats;
use serde::{Deserialize, Serialize};
use serde_json::json;

pub struct C15;

#[derive(Clone, Debug, Serialize, Deserialize)]
pub struct C15Plan {
    pub note: String,
    pub opts: u8,
    pub pics: Vec<PlanPic>,
    /// Before call i (0-based) at least this many bytes of the concatenation
    /// have been delivered (always covers pictures 0..=i completely).
    pub delivered_before_call: Vec<usize>,
    /// Chunk sizes used for each delivery (delivery policy).
    pub chunk: usize,
    /// EINTR armed at these read indices of call i: (call, n).
    pub eintr: Vec<(usize, u64)>,
    /// Extra calls after the last picture.
    pub extra_calls: usize,
    /// Which decoder (0 or 1) takes picture i; empty = one decoder.  Two decoders
    /// taking turns on ONE reader is legal use of the API: the reader must be left
    /// at the end of each picture whoever decodes the next one.
    #[serde(default)]
    pub assign: Vec<u8>,
    /// Short-read knob for the stream's source (0 = unlimited).
    #[serde(default)]
    pub max_chunk: usize,
    /// Non-empty = BIT-contiguous stream: picture i is followed by
    /// min(stuff_bits[i], bits to the next byte boundary) zero bits and then directly
    /// by the next start code, which may therefore begin in the middle of a byte
    /// (H.263 start codes are only optionally byte aligned).  Empty = every picture
    /// padded to a byte boundary.
    #[serde(default)]
    pub stuff_bits: Vec<u8>,
    /// What the USER does on the stream's reader / decoder between call i and call
    /// i+1 (all of it legal and without effect on what is decoded): 0 nothing,
    /// 1 `reader.commit()`, 2 a 16-bit peek inside a look-ahead, 3 `parse_picture`
    /// inside a look-ahead, 4 `cleanup_buffers()`.
    #[serde(default)]
    pub between: Vec<u8>,
}

fn viol(class: &str, detail: String) -> Option<Violation> {
    Some(Violation { class: format!("C15: {class}"), detail })
}

pub fn exec_c15(plan: &C15Plan, st: &mut Stats) -> Option<Violation> {
    let n = plan.pics.len();
    let mut concat = Vec::new();
    let mut ends = Vec::new();
    if plan.stuff_bits.is_empty() {
        for p in &plan.pics {
            concat.extend_from_slice(&p.bytes);
            ends.push(concat.len());
        }
    } else {
        st.inc("probe.bit_contiguous_stream");
        let mut w = BitWriter::default();
        for (i, p) in plan.pics.iter().enumerate() {
            let nbits = p.spec.as_ref().map(|s| encode(s).1.total_bits).unwrap_or(p.bytes.len() * 8).min(p.bytes.len() * 8);
            for b in 0..nbits {
                w.put(((p.bytes[b / 8] >> (7 - b % 8)) & 1) as u32, 1);
            }
            let realign = (8 - w.pos() % 8) % 8;
            let s = (plan.stuff_bits.get(i).copied().unwrap_or(0) as usize).min(realign);
            if s < realign {
                st.inc("probe.next_start_code_not_byte_aligned");
            }
            w.put(0, s as u8);
            ends.push((w.pos() + 7) / 8);
        }
        concat = w.bytes;
        // the bytes are complete only up to the last written bit; pad is implicit zeros
        let last = ends.len() - 1;
        ends[last] = concat.len();
    }
    let mut a = Slot::new(plan.opts);
    if plan.max_chunk > 0 {
        a.set_max_chunk(plan.max_chunk);
    }
    let mut a2 = h263_rs::H263State::new(opts_from_bits(plan.opts));
    let mut b = Slot::new(plan.opts);
    let mut b2 = Slot::new(plan.opts);
    let who = |i: usize| plan.assign.get(i).copied().unwrap_or(0) & 1;
    if plan.assign.iter().any(|d| *d == 1) {
        st.inc("probe.two_decoders_on_one_reader");
    }
    let mut delivered = 0usize;
    for i in 0..n {
        st.add("steps", 1);
        // twin B: its own reader (and the decoder this picture is assigned to)
        let tb = if who(i) == 0 { &mut b } else { &mut b2 };
        tb.new_reader();
        tb.feed(&plan.pics[i].bytes);
        let ob = tb.decode();
        if let Outcome::Panic(_) = &ob {
            st.inc("panic_not_judged_here"); // the picture crashes even in its own reader: C01's verdict
            return None;
        }
        // A: deliver what the plan says (never less than picture i completely)
        let want = plan.delivered_before_call.get(i).copied().unwrap_or(concat.len()).clamp(ends[i], concat.len());
        while delivered < want {
            let e = (delivered + plan.chunk.max(1)).min(want);
            a.feed(&concat[delivered..e]);
            delivered = e;
        }
        for (c, k) in &plan.eintr {
            if *c == i {
                a.arm(*k, SrcFault::Eintr);
            }
        }
        match plan.between.get(i).copied().unwrap_or(0) {
            1 => {
                a.reader.commit();
                st.inc("probe.user_commit_between_calls");
            }
            2 => {
                let _ = guarded(|| a.reader.with_lookahead(|r| r.peek_bits::<u32>(16)));
                st.inc("probe.user_peek_between_calls");
            }
            3 => {
                let _ = guarded(|| {
                    let Slot { reader, state, .. } = &mut a;
                    reader.with_lookahead(|r| state.parse_picture(r, None).map(|_| ()))
                });
                st.inc("probe.user_parse_picture_between_calls");
            }
            4 => {
                let _ = a.cleanup();
            }
            _ => {}
        }
        let oa = if who(i) == 0 { a.decode() } else { a.decode_with(&mut a2) };
        st.inc("evaluations");
        {
            let mut p = a.pipe.lock().unwrap();
            let f: u64 = p.fired.drain(..).map(|x| x.1).sum();
            st.add("fault.src_Eintr.fired", f);
            p.armed.clear();
        }
        st.hs(&oa.class());
        if let Outcome::Panic(p) = &oa {
            // in its own reader the same picture decoded or failed cleanly: the stream call differs
            return viol("stream call result differs from the per-picture reader", format!("call {i} on the concatenated stream panicked ({p}); in its own reader the picture gives {}", ob.short()));
        }
        let spec = plan.pics[i].spec.as_ref();
        let what = || {
            format!(
                "call {i} of {n} (picture: {}, {} bytes, ends at bit phase {}; {} bytes delivered of {})",
                spec.map(|s| format!("{:?} {}x{} {:?}", s.ptype, s.width, s.height, s.flavour)).unwrap_or_default(),
                plan.pics[i].bytes.len(),
                spec.map(|s| encode(s).1.total_bits % 8).unwrap_or(0),
                delivered,
                concat.len()
            )
        };
        // An early-ended picture (fewer macroblocks than its size implies) is judged only
        // where both deliveries accept it: the statement speaks of valid pictures and does
        // not say that a decoder has to accept a picture whose data stops early when
        // another picture follows (Sorenson mode never does).  What IS judged: when the
        // stream call succeeds the picture is the one its own reader gives, and the reader
        // is left at the end of that picture's data, i.e. the FOLLOWING pictures decode as
        // in their own readers.
        let early = spec.map(|s| s.mbs.len() < s.mb_count() && s.extra_bits.is_empty()).unwrap_or(false);
        if early && (oa.class() != ob.class() || !ob.is_ok()) {
            st.inc(if oa.class() != ob.class() { "early_ended_picture_outcome_differs_not_judged" } else { "early_ended_picture_rejected_by_both" });
            return None; // the stream's reader is not past this picture: nothing more to compare
        }
        if spec.map(|s| !s.extra_bits.is_empty()).unwrap_or(false) && ob.is_ok() {
            st.inc("probe.umv_picture_accepted");
        }
        if early {
            st.inc(if i + 1 < n { "probe.early_ended_picture_followed_by_a_start_code" } else { "probe.early_ended_last_picture" });
        }
        if oa.class() != ob.class() {
            return viol(
                "stream call result differs from the per-picture reader",
                format!("{}: stream gives {}, own reader gives {}", what(), oa.short(), ob.short()),
            );
        }
        let (sa, sb) = if who(i) == 0 { (snap_last(&a.state), snap_last(&b.state)) } else { (snap_last(&a2), snap_last(&b2.state)) };
        if oa.is_ok() && sa.is_none() {
            return viol("no decoded picture after a successful call", what());
        }
        if sa != sb {
            let d = match (&sa, &sb) {
                (Some(x), Some(y)) if x.header != y.header => format!("headers differ: {} vs {}", x.header, y.header),
                (Some(x), Some(y)) => format!("planes differ (first luma difference at {:?})", x.y.iter().zip(y.y.iter()).position(|(p, q)| p != q)),
                _ => "one side has no picture".into(),
            };
            return viol("stream picture differs from the per-picture reader", format!("{}: {d}", what()));
        }
        if !ob.is_ok() {
            st.inc("twin_rejected_valid_picture");
        } else {
            st.inc("pictures_compared");
            if let Some(s) = spec {
                st.inc(&format!("probe.picture_ends_at_bit_phase_{}", encode(s).1.total_bits % 8));
                if i + 1 < n {
                    let nx = plan.pics[i + 1].spec.as_ref().unwrap();
                    let t = |p: PType| if p == PType::I { "I" } else { "P" };
                    st.inc(&format!("probe.boundary_{}_to_{}", t(s.ptype), t(nx.ptype)));
                    if (nx.width, nx.height) != (s.width, s.height) {
                        st.inc("probe.next_picture_of_another_size");
                    }
                    st.distinct.insert(fnv1a(&plan.pics[i].bytes) ^ fnv1a(&plan.pics[i + 1].bytes).rotate_left(17));
                }
            }
        }
    }
    // deliver the rest (nothing, normally) and call again: end of data, state unchanged
    if delivered < concat.len() {
        a.feed(&concat[delivered..]);
    }
    for k in 0..plan.extra_calls {
        let before = state_digest(&a.state);
        let o = a.decode();
        st.inc("evaluations");
        st.inc("fault.eof_for_now.fired");
        match &o {
            Outcome::Panic(_) => {
                st.inc("panic_not_judged_here"); // a crash on an exhausted reader is C01's verdict
                return None;
            }
            Outcome::Ok => return viol("a call after the last picture succeeded", format!("call {} on an exhausted stream of {n} pictures returned Ok", n + k)),
            Outcome::Err(_) => {
                // any error value is acceptable here (the statement only requires that
                // nothing more is decoded); which one is counted
                st.inc(if o.is_eof_err() { "probe.call_after_last_picture_reports_end_of_data" } else { "exhausted_stream_other_error" });
            }
        }
        if state_digest(&a.state) != before {
            return viol("a failed call on an exhausted stream changed the decoder state", format!("call {}", n + k));
        }
    }
    None
}

pub fn gen_c15(rng: &mut Rng, tier: Tier) -> C15Plan {
    let opts = rng.below(4) as u8;
    let mut cfg = GenCfg::for_opts(rng, opts);
    cfg.pei16 = *rng.pick(&[0u8, 4, 8, 12]); // PEI bytes move the end phase around
    cfg.stuff16 = *rng.pick(&[0u8, 2, 6]);
    if cfg.flavour == 3 {
        cfg.density = cfg.density.min(1);
        cfg.mb_weights[0] += 10;
    }
    let class = if cfg.flavour == 3 { 0 } else { *rng.pick(&[0u8, 0, 3, if tier == Tier::Quick { 0 } else { 1 }]) };
    let (mut w, mut h) = gen_size(rng, class);
    if w as u32 * h as u32 > 200 * 200 {
        // streams are about boundaries, not sizes: keep the extreme aspects out
        w = w.min(200);
        h = h.min(200);
    }
    let (mut fl, w2, h2) = flavour_for(rng, &cfg, w, h);
    w = w2;
    h = h2;
    // one stream in 100 is LONG: dozens of pictures and kilobytes through one reader
    let long = rng.chance(1, 100);
    // thorough tier, rarely: more than a mebibyte and more than a thousand pictures
    // through ONE reader
    let very_long = tier == Tier::Thorough && rng.chance(1, 2500);
    let n = if very_long { 1000 + rng.usize(300) } else if long { 20 + rng.usize(60) } else { 1 + rng.usize(6) };
    if very_long {
        cfg.density = 3;
        cfg.mb_weights = [1, 3, 1, 1, 3, 1, 1];
    }
    if long {
        cfg.pei16 = 12;
    }
    let mut pics = Vec::new();
    let mut tr = rng.byte();
    // two decoders taking turns on the one reader, in one stream out of eight
    let two = !long && rng.chance(1, 8);
    // one stream in five contains early-ended predicted pictures
    let early_stream = rng.chance(1, 5);
    // one PLUSPTYPE stream in three contains UMV pictures
    let umv_stream = !two && matches!(fl, Flavour::StdPlus { .. }) && rng.chance(1, 3);
    let assign: Vec<u8> = if two { (0..n).map(|_| rng.below(2) as u8).collect() } else { vec![] };
    let mut has_ref2 = [false, false];
    let mut has_ref = false;
    for k in 0..n {
        let d = assign.get(k).copied().unwrap_or(0) as usize;
        if two {
            has_ref = has_ref2[d];
        }
        tr = tr.wrapping_add(1);
        let mut ptype = if !has_ref || rng.chance(1, 4) {
            PType::I
        } else if cfg.is_sorenson() && rng.chance(1, 4) {
            PType::Disposable
        } else {
            PType::P
        };
        if !two && has_ref && cfg.is_sorenson() && rng.chance(1, 8) {
            // size change: only valid at an intra picture (Sorenson; standard mode answers
            // a format change with "unimplemented")
            let (nw, nh) = gen_size(rng, class);
            let (nfl, nw, nh) = flavour_for(rng, &cfg, nw, nh);
            fl = nfl;
            w = nw;
            h = nh;
            ptype = PType::I;
        }
        let flq = requalify(rng, &fl, w, h);
        let mut s = gen_picture(rng, &cfg, flq, ptype, w, h, tr);
        // EARLY-ENDED predicted pictures (C03's "early end of data"; the resynchronisation
        // arm of the macroblock loop is one of C15's anchors): the macroblock data stops
        // after k < all macroblocks and is followed, like any picture, by fewer than eight
        // zero bits and the next start code.  In standard mode anywhere in the stream (the
        // decoder resynchronises on the start code); in Sorenson mode, which never
        // resynchronises, only as the last picture (ended by the end of data).
        if early_stream && ptype != PType::I && (!cfg.is_sorenson() || k + 1 == n) && !s.mbs.is_empty() && rng.bool() {
            let keep = if rng.chance(1, 4) { s.mbs.len() - 1 } else { rng.usize(s.mbs.len()) };
            s.mbs.truncate(keep);
        }
        // UMV pictures (standard mode, PLUSPTYPE with the unrestricted-motion-vector option):
        // every macroblock INTER without coded blocks, its vector written in the Table D.3
        // code, so that the picture's last bits are a vector component (often the one-bit
        // code for zero).  No model is needed here: the twin defines the picture.
        if umv_stream && ptype == PType::P && rng.bool() {
            if let Flavour::StdPlus { layers, .. } = &s.flavour {
                let umv = 1 + rng.below(2) as u8;
                let hdr = crate::spec::PlusHdr { fmt: 6, umv, par: 1, ..Default::default() };
                s.flavour = Flavour::StdPlus { umv_unlimited: umv == 2, layers: *layers, hdr: Some(hdr) };
                let nmb = s.mb_count();
                s.mbs.clear();
                let comp = |rng: &mut Rng, bits: &mut Vec<(u32, u8)>, zero: bool| {
                    if zero {
                        bits.push((1, 1));
                    } else {
                        bits.push((0, 1));
                        for _ in 0..rng.usize(4) {
                            bits.push((*rng.pick(&[0b01u32, 0b11]), 2));
                        }
                        bits.push((*rng.pick(&[0b00u32, 0b10]), 2));
                    }
                };
                for m in 0..nmb {
                    s.extra_bits.push((0, 1)); // COD
                    s.extra_bits.push((1, 1)); // MCBPC: INTER, no chroma
                    s.extra_bits.push((0b11, 2)); // CBPY: no luma
                    let z = rng.chance(1, 3);
                    comp(rng, &mut s.extra_bits, z);
                    let zy = if m + 1 == nmb { rng.chance(2, 3) } else { rng.chance(1, 3) };
                    comp(rng, &mut s.extra_bits, zy);
                }
            }
        }
        if ptype != PType::Disposable {
            has_ref = true;
            has_ref2[d] = true;
        }
        pics.push(PlanPic::from_spec(s, vec![], "valid").0);
    }
    let total: usize = pics.iter().map(|p| p.bytes.len()).sum();
    let mut ends = Vec::new();
    let mut acc = 0;
    for p in &pics {
        acc += p.bytes.len();
        ends.push(acc);
    }
    let policy = rng.below(4);
    let delivered_before_call: Vec<usize> = (0..n)
        .map(|i| match policy {
            0 => total,                                         // whole stream up front
            1 => ends[i],                                       // exactly at picture boundaries
            2 => ends[i] + rng.usize(total - ends[i] + 1),      // the picture plus a random part of what follows
            _ => (ends[i] + rng.usize(4)).min(total),           // a few bytes into the next picture
        })
        .collect();
    let chunk = *rng.pick(&[1usize, 2, 3, 7, 64, 4096]);
    let eintr = if rng.chance(1, 3) { (0..1 + rng.usize(4)).map(|_| (rng.usize(n), 1 + rng.below(40))).collect() } else { vec![] };
    C15Plan {
        note: format!("opts {opts}, flavour {}, {n} pictures, {total} bytes, delivery policy {policy}, chunk {chunk}", cfg.flavour),
        opts,
        pics,
        delivered_before_call,
        chunk,
        eintr,
        extra_calls: 1 + rng.usize(2),
        assign,
        max_chunk: *rng.pick(&[0usize, 0, 0, 1, 2, 5]),
        stuff_bits: if rng.chance(1, 3) { (0..n).map(|_| rng.below(9) as u8).collect() } else { vec![] },
        between: if rng.chance(1, 3) { (0..n).map(|_| *rng.pick(&[0u8, 0, 1, 2, 3, 4])).collect() } else { vec![] },
    }
}

fn ultra_stream(variant: usize) -> C15Plan {
    let mut rng = Rng::new(0xC15_0000 + variant as u64);
    let opts = 1;
    let mut cfg = GenCfg::for_opts(&mut rng, opts);
    cfg.flavour = 0;
    cfg.pei16 = 0;
    cfg.stuff16 = 0;
    cfg.density = 0;
    cfg.mb_weights = [6, 1, 0, 0, 1, 0, 0];
    let fl = Flavour::Sorenson { version: 0, size_code: 0 };
    let mut pics = Vec::new();
    let n = 66_000;
    let mut tr = 0u8;
    // a pool of a few dozen distinct pictures, repeated with fresh temporal references
    let i = gen_textured_intra(&mut rng, &cfg, fl.clone(), 16, 16, 0);
    pics.push(PlanPic::from_spec(i, vec![], "valid").0);
    let pool: Vec<PicSpec> = (0..32)
        .map(|k| {
            let mut c = cfg.clone();
            c.pei16 = if k % 4 == 0 { 16 } else { 0 }; // some carry PEI bytes: other end phases
            gen_picture(&mut rng, &c, fl.clone(), if k % 5 == 0 { PType::Disposable } else { PType::P }, 16, 16, 0)
        })
        .collect();
    for _ in 1..n {
        tr = tr.wrapping_add(1);
        let mut s = pool[rng.usize(pool.len())].clone();
        s.tr = tr;
        pics.push(PlanPic::from_spec(s, vec![], "valid").0);
    }
    C15Plan {
        note: format!("ultra-long stream (variant {variant}): {n} pictures through one reader"),
        opts,
        pics,
        delivered_before_call: vec![],
        chunk: 4096,
        eintr: vec![],
        extra_calls: 1,
        assign: vec![],
        max_chunk: 0,
        stuff_bits: if variant == 1 { (0..n).map(|k| (k % 9) as u8).collect() } else { vec![] },
        between: vec![],
    }
}

impl Property for C15 {
    type Plan = C15Plan;
    const ID: &'static str = "C15";
    const LEVEL: &'static str = "exploration";
    const RULE: &'static str = "seeded streams of 1-6 valid pictures (any types, Sorenson v0/v1/other with size changes at intra pictures, standard PTYPE and PLUSPTYPE), each ending at an arbitrary bit phase (varied by PEI bytes and MCBPC stuffing) and padded with fewer than eight zero bits, concatenated into one source (byte-padded, or bit-contiguous with the next start code inside the byte where the previous picture ended; one stream in 100 has 20-80 pictures, a sweep pushes 66 000 pictures through one reader; sometimes two decoders take turns on the one reader, and the user commits / peeks / parses a header in a look-ahead / cleans up between calls; one stream in five contains EARLY-ENDED predicted pictures, whose macroblock data stops after any macroblock - anywhere in a standard-mode stream, where the decoder resynchronises on the next start code, and as the last picture of a Sorenson stream - judged only where both deliveries accept them; one PLUSPTYPE stream in three contains UMV pictures whose macroblocks are INTER without coded blocks and end in a Table D.3 vector code); delivered whole, at picture boundaries, or with an arbitrary part of the following pictures, in chunks of 1..4096 bytes completed before the call that needs them, with EINTR sprinkled. Decoder A calls on the one reader, twin B uses one reader per picture; every call must agree in result, header and planes; further calls on the exhausted stream must report end of data and change nothing. evaluations = decode calls on the stream. A case is non-trivial if it is a picture boundary (picture i accepted and followed by picture i+1 in the same reader); distinct by the two pictures' bytes.";
    fn runs(tier: Tier) -> u64 {
        match tier {
            Tier::Quick => 100_000,
            Tier::Thorough => 2_500_000,
        }
    }
    fn generate(rng: &mut Rng, tier: Tier) -> C15Plan {
        gen_c15(rng, tier)
    }
    fn execute(plan: &C15Plan, st: &mut Stats) -> Option<Violation> {
        st.sample(|| json!({"note": plan.note, "n_pictures": plan.pics.len(), "pictures_first_12": plan.pics.iter().take(12).map(|p| p.spec.as_ref().map(|s| format!("{:?} {}x{} {} bytes", s.ptype, s.width, s.height, p.bytes.len()))).collect::<Vec<_>>(), "delivered_before_call_first_12": plan.delivered_before_call.iter().take(12).collect::<Vec<_>>()}));
        exec_c15(plan, st)
    }
    fn shrink(plan: &C15Plan) -> Vec<C15Plan> {
        let mut out = Vec::new();
        // drop pictures from the end / the middle (keeping the first, an intra picture)
        for k in (1..plan.pics.len()).rev() {
            let mut c = plan.clone();
            c.pics.remove(k);
            if k < c.assign.len() {
                c.assign.remove(k);
            }
            c.delivered_before_call = vec![];
            c.eintr.clear();
            out.push(c);
        }
        if !plan.eintr.is_empty() || plan.chunk != 4096 || !plan.delivered_before_call.is_empty() {
            let mut c = plan.clone();
            c.eintr.clear();
            c.chunk = 4096;
            c.delivered_before_call = vec![];
            out.push(c);
        }
        for (pi, p) in plan.pics.iter().enumerate() {
            if let Some(spec) = &p.spec {
                if !spec.pei.is_empty() {
                    let mut c = plan.clone();
                    c.pics[pi].spec.as_mut().unwrap().pei.clear();
                    c.pics[pi].rebuild();
                    c.delivered_before_call = vec![];
                    out.push(c);
                }
                for (mi, mb) in spec.mbs.iter().enumerate() {
                    if let MbSpec::Coded { blocks, .. } = mb {
                        if blocks.iter().any(|b| !b.coefs.is_empty()) {
                            let mut c = plan.clone();
                            if let MbSpec::Coded { blocks, stuffing, .. } = &mut c.pics[pi].spec.as_mut().unwrap().mbs[mi] {
                                for b in blocks.iter_mut() {
                                    b.coefs.clear();
                                }
                                *stuffing = 0;
                            }
                            c.pics[pi].rebuild();
                            c.delivered_before_call = vec![];
                            out.push(c);
                        }
                    }
                }
            }
        }
        out
    }
    fn sweeps(tier: Tier) -> Vec<C15Plan> {
        // ULTRA-long streams: more than 65 536 pictures through ONE reader (any 16-bit
        // counter of pictures, calls or commits wraps), byte-padded and bit-contiguous.
        let variants = if tier == Tier::Quick { 1 } else { 2 };
        (0..variants).map(|v| ultra_stream(v)).collect()
    }
    fn assumptions() -> Vec<String> {
        vec![
            "twin oracle: the per-picture reader defines what each picture decodes to (absolute correctness of a picture is C02/C03 territory)".into(),
            "bytes are always completely delivered before the call that needs them; partial availability is C05/C03 territory".into(),
            "no stuffing codewords after the last macroblock (the statement speaks of zero padding bits only)".into(),
            "an early-ended picture is judged only where the stream call and its own reader both accept it (the statement speaks of valid pictures); what is judged then: same picture, and the following pictures of the stream decode as in their own readers (reader left at the end of the picture's data)".into(),
        ]
    }
    fn probe_names() -> Vec<&'static str> {
        vec![
            "picture_ends_at_bit_phase_0",
            "picture_ends_at_bit_phase_1",
            "picture_ends_at_bit_phase_2",
            "picture_ends_at_bit_phase_3",
            "picture_ends_at_bit_phase_4",
            "picture_ends_at_bit_phase_5",
            "picture_ends_at_bit_phase_6",
            "picture_ends_at_bit_phase_7",
            "boundary_I_to_I",
            "boundary_I_to_P",
            "boundary_P_to_P",
            "boundary_P_to_I",
            "next_picture_of_another_size",
            "call_after_last_picture_reports_end_of_data",
            "two_decoders_on_one_reader",
            "bit_contiguous_stream",
            "next_start_code_not_byte_aligned",
            "user_commit_between_calls",
            "user_peek_between_calls",
            "user_parse_picture_between_calls",
            "early_ended_picture_followed_by_a_start_code",
            "early_ended_last_picture",
            "umv_picture_accepted",
        ]
    }
}
