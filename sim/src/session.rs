//! Session executor: interprets the events of a `Session` plan against REAL
//! decoder instances and records the history the oracles judge.

use crate::exec::*;
use crate::plan::{Ev, Session};
use crate::spec::max_declared_samples;
use crate::stats::Stats;
use std::sync::Arc;

/// Memory screen (C01: "only inputs whose declared picture size would not fit
/// in memory are excluded"): pipes whose bytes contain a picture header that
/// declares more luma samples than this are not decoded.
pub const SCREEN_SAMPLES: u64 = 1 << 22;

#[derive(Clone, Debug)]
pub struct Rec {
    pub ev: usize,
    pub d: usize,
    pub is_decode: bool,
    pub out: Outcome,
    pub reads: u64,
    pub digest_before: u64,
    pub digest_after: u64,
    /// Snapshot of `get_last_picture()` after the event (only if `keep_snaps`).
    pub last: Option<Arc<Snap>>,
    pub hdr: Option<Hdr>,
    /// Pictures (indices into `pics`) fed to this decoder since its previous decode.
    pub fed: Vec<usize>,
    /// True if all bytes of exactly one picture were fed for this call on a
    /// fresh reader (the common "one picture per reader" delivery).
    pub whole_single: bool,
    pub excluded: bool,
}

pub struct SessionOpts {
    pub keep_snaps: bool,
}

/// Run a session.  `after_decode(slot, rec)` is called after every decode event
/// while the decoder is still borrowable (pipeline invariants hook in here).
pub fn run_session(
    s: &Session,
    o: &SessionOpts,
    st: &mut Stats,
    after_decode: &mut dyn FnMut(&mut Slot, &Rec, &mut Stats) -> Option<crate::plan::Violation>,
) -> (Vec<Rec>, Option<crate::plan::Violation>) {
    let mut slots: Vec<Option<Slot>> = Vec::new();
    let mut fed: Vec<Vec<usize>> = Vec::new();
    let mut fresh: Vec<bool> = Vec::new();
    let mut fed_bytes: Vec<usize> = Vec::new();
    let mut recs = Vec::new();
    let mut last_snap: Vec<Option<Arc<Snap>>> = Vec::new();
    for (i, ev) in s.events.iter().enumerate() {
        st.add("steps", 1);
        match ev {
            Ev::New { d, opts } => {
                while slots.len() <= *d {
                    slots.push(None);
                    fed.push(Vec::new());
                    fresh.push(true);
                    fed_bytes.push(0);
                    last_snap.push(None);
                }
                let mut sl = Slot::new(*opts);
                if s.max_chunk > 0 {
                    sl.set_max_chunk(s.max_chunk);
                }
                slots[*d] = Some(sl);
                fed[*d].clear();
                fresh[*d] = true;
                fed_bytes[*d] = 0;
                last_snap[*d] = None;
                st.h(0x11 ^ (*opts as u64) << 8);
            }
            Ev::Reader { d } => {
                if let Some(Some(sl)) = slots.get_mut(*d) {
                    sl.new_reader();
                    fed[*d].clear();
                    fresh[*d] = true;
                    fed_bytes[*d] = 0;
                }
            }
            Ev::Feed { d, pic, from, to } => {
                if let (Some(Some(sl)), Some(p)) = (slots.get_mut(*d), s.pics.get(*pic)) {
                    let to = (*to).min(p.bytes.len());
                    let from = (*from).min(to);
                    sl.feed(&p.bytes[from..to]);
                    fed[*d].push(*pic);
                    fed_bytes[*d] += to - from;
                }
            }
            Ev::Arm { d, n, kind } => {
                if let Some(Some(sl)) = slots.get_mut(*d) {
                    sl.arm(*n, *kind);
                }
            }
            Ev::Decode { d } | Ev::Cleanup { d } => {
                let is_decode = matches!(ev, Ev::Decode { .. });
                let sl = match slots.get_mut(*d) {
                    Some(Some(sl)) if !sl.poisoned => sl,
                    _ => continue,
                };
                let before = state_digest(&sl.state);
                let reads0 = sl.reads();
                let mut excluded = false;
                let out = if is_decode {
                    let too_large = {
                        let p = sl.pipe.lock().unwrap();
                        max_declared_samples(&p.data, sl.sorenson()) > if s.screen > 0 { s.screen } else { SCREEN_SAMPLES }
                    };
                    if too_large {
                        excluded = true;
                        st.inc("excluded_too_large");
                        sl.new_reader();
                        fresh[*d] = true;
                        fed_bytes[*d] = 0;
                        Outcome::Err("EXCLUDED".into())
                    } else {
                        st.inc("evaluations");
                        sl.decode()
                    }
                } else {
                    sl.cleanup()
                };
                let reads = sl.reads().saturating_sub(reads0);
                st.add("steps", reads);
                {
                    let mut p = sl.pipe.lock().unwrap_or_else(|e| e.into_inner());
                    let fired: Vec<_> = p.fired.drain(..).collect();
                    for (k, n) in fired {
                        st.add(&format!("fault.src_{k:?}.fired"), n);
                    }
                    if p.eof_reads > 0 {
                        st.add("fault.eof_for_now.fired", p.eof_reads);
                        p.eof_reads = 0;
                    }
                }
                let (after, last, hdr) = if sl.poisoned {
                    (0, None, None)
                } else {
                    let a = state_digest(&sl.state);
                    let l = if o.keep_snaps {
                        if a != before || last_snap[*d].is_none() {
                            last_snap[*d] = snap_last(&sl.state).map(Arc::new);
                        }
                        last_snap[*d].clone()
                    } else {
                        None
                    };
                    (a, l, hdr_last(&sl.state))
                };
                let whole_single = fresh[*d]
                    && fed[*d].len() == 1
                    && s.pics.get(fed[*d][0]).map(|p| p.bytes.len() == fed_bytes[*d]).unwrap_or(false);
                let rec = Rec {
                    ev: i,
                    d: *d,
                    is_decode,
                    out,
                    reads,
                    digest_before: before,
                    digest_after: after,
                    last,
                    hdr,
                    fed: std::mem::take(&mut fed[*d]),
                    whole_single,
                    excluded,
                };
                st.hs(&rec.out.class());
                st.h(rec.digest_after);
                if is_decode {
                    fresh[*d] = false;
                    fed_bytes[*d] = 0;
                    if !rec.excluded {
                        st.inc(match &rec.out {
                            Outcome::Ok => "decode.ok",
                            Outcome::Err(_) => "decode.err",
                            Outcome::Panic(_) => "decode.panic",
                        });
                    }
                }
                let v = if is_decode && !rec.excluded { after_decode(sl, &rec, st) } else { None };
                recs.push(rec);
                if v.is_some() {
                    return (recs, v);
                }
            }
        }
    }
    (recs, None)
}

/// Shrink candidates common to all session plans: drop event chunks, drop
/// unused pictures' transit faults, simplify pictures.
pub fn shrink_session(s: &Session) -> Vec<Session> {
    use crate::plan::drop_chunks;
    use crate::spec::MbSpec;
    let mut out = Vec::new();
    // garbage-collect pictures no event refers to
    let used: Vec<bool> = (0..s.pics.len()).map(|pi| s.events.iter().any(|e| matches!(e, Ev::Feed { pic, .. } if *pic == pi))).collect();
    if used.iter().any(|u| !*u) {
        let mut c = s.clone();
        let mut map = vec![0usize; s.pics.len()];
        let mut k = 0;
        for (i, u) in used.iter().enumerate() {
            map[i] = k;
            if *u {
                k += 1;
            }
        }
        c.pics = s.pics.iter().zip(used.iter()).filter(|(_, u)| **u).map(|(p, _)| p.clone()).collect();
        for e in c.events.iter_mut() {
            if let Ev::Feed { pic, .. } = e {
                *pic = map[*pic];
            }
        }
        out.push(c);
    }
    for evs in drop_chunks(&s.events) {
        let mut c = s.clone();
        c.events = evs;
        out.push(c);
    }
    // per picture: drop transit faults, truncate raw bytes, simplify spec
    for (pi, p) in s.pics.iter().enumerate() {
        let used = s.events.iter().any(|e| matches!(e, Ev::Feed { pic, .. } if *pic == pi));
        if !used {
            continue;
        }
        for ti in 0..p.transit.len() {
            let mut c = s.clone();
            c.pics[pi].transit.remove(ti);
            c.pics[pi].rebuild();
            out.push(c);
        }
        if let Some(spec) = &p.spec {
            // fewer macroblocks (only meaningful for adversarial / truncated pictures)
            if spec.mbs.len() > 1 {
                for keep in [spec.mbs.len() / 2, spec.mbs.len() - 1] {
                    let mut c = s.clone();
                    c.pics[pi].spec.as_mut().unwrap().mbs.truncate(keep);
                    c.pics[pi].rebuild();
                    out.push(c);
                }
            }
            // smaller picture (keeps macroblock list consistent)
            for (nw, nh) in [(spec.width.min(16), spec.height.min(16)), (spec.width / 2, spec.height), (spec.width, spec.height / 2)] {
                if (nw, nh) != (spec.width, spec.height) && nw > 0 && nh > 0 && matches!(spec.flavour, crate::spec::Flavour::Sorenson { size_code: 0 | 1, .. }) {
                    let mut c = s.clone();
                    {
                        let sp = c.pics[pi].spec.as_mut().unwrap();
                        sp.width = nw;
                        sp.height = nh;
                        let n = sp.mb_count();
                        if sp.mbs.len() > n {
                            sp.mbs.truncate(n);
                        }
                    }
                    c.pics[pi].rebuild();
                    out.push(c);
                }
            }
            // simpler macroblocks
            for (mi, mb) in spec.mbs.iter().enumerate() {
                if let MbSpec::Coded { blocks, mvd, stuffing, .. } = mb {
                    if spec.ptype != crate::spec::PType::I {
                        let mut c = s.clone();
                        c.pics[pi].spec.as_mut().unwrap().mbs[mi] = MbSpec::NotCoded;
                        c.pics[pi].rebuild();
                        out.push(c);
                    }
                    if blocks.iter().any(|b| !b.coefs.is_empty()) {
                        let mut c = s.clone();
                        if let MbSpec::Coded { blocks, .. } = &mut c.pics[pi].spec.as_mut().unwrap().mbs[mi] {
                            for b in blocks.iter_mut() {
                                b.coefs.clear();
                            }
                        }
                        c.pics[pi].rebuild();
                        out.push(c);
                    }
                    if mvd.iter().any(|v| *v != (0, 0)) || *stuffing > 0 {
                        let mut c = s.clone();
                        if let MbSpec::Coded { mvd, stuffing, .. } = &mut c.pics[pi].spec.as_mut().unwrap().mbs[mi] {
                            *mvd = [(0, 0); 4];
                            *stuffing = 0;
                        }
                        c.pics[pi].rebuild();
                        out.push(c);
                    }
                }
            }
            if !spec.pei.is_empty() {
                let mut c = s.clone();
                c.pics[pi].spec.as_mut().unwrap().pei.clear();
                c.pics[pi].rebuild();
                out.push(c);
            }
        } else {
            let n = p.bytes.len();
            for keep in [n / 2, n.saturating_sub(1)] {
                if keep < n {
                    let mut c = s.clone();
                    c.pics[pi].bytes.truncate(keep);
                    out.push(c);
                }
            }
            for (bi, b) in p.bytes.iter().enumerate().take(64) {
                if *b != 0 {
                    let mut c = s.clone();
                    c.pics[pi].bytes[bi] = 0;
                    out.push(c);
                }
            }
        }
    }
    out
}
