//! Plans: a run is an explicit, serialisable list of events.  `plan = f(seed)`,
//! `history = g(plan, code)`; the executor never draws from a PRNG, so a replay
//! needs only the plan and the minimiser may edit it freely.

use crate::rng::Rng;
use crate::source::SrcFault;
use crate::spec::{encode, Marks, PicSpec};
use serde::{Deserialize, Serialize};

pub mod hex {
    use serde::{Deserialize, Deserializer, Serializer};
    pub fn serialize<S: Serializer>(v: &Vec<u8>, s: S) -> Result<S::Ok, S::Error> {
        let mut out = String::with_capacity(v.len() * 2);
        for b in v {
            out.push_str(&format!("{b:02x}"));
        }
        s.serialize_str(&out)
    }
    pub fn deserialize<'de, D: Deserializer<'de>>(d: D) -> Result<Vec<u8>, D::Error> {
        let s = String::deserialize(d)?;
        let b = s.as_bytes();
        let mut out = Vec::with_capacity(b.len() / 2);
        let mut i = 0;
        while i + 1 < b.len() {
            let h = (b[i] as char).to_digit(16).unwrap_or(0) as u8;
            let l = (b[i + 1] as char).to_digit(16).unwrap_or(0) as u8;
            out.push(h << 4 | l);
            i += 2;
        }
        Ok(out)
    }
}

/// Transit faults: what can happen to a picture's bytes between the encoder and
/// the decoder's source ("message" corruption, loss, duplication, reordering).
#[derive(Clone, Debug, PartialEq, Eq, Serialize, Deserialize)]
pub enum Transit {
    BitFlip { bit: usize },
    ByteSet { at: usize, val: u8 },
    ZeroRun { at: usize, len: usize },
    OnesRun { at: usize, len: usize },
    /// eof_for_good after `len` bytes.
    Truncate { len: usize },
    DropChunk { at: usize, len: usize },
    DupChunk { at: usize, len: usize },
    SwapChunks { a: usize, b: usize, len: usize },
    InsertGarbage {
        at: usize,
        #[serde(with = "hex")]
        bytes: Vec<u8>,
    },
    GarbageTail {
        #[serde(with = "hex")]
        bytes: Vec<u8>,
    },
}

impl Transit {
    pub fn name(&self) -> &'static str {
        match self {
            Transit::BitFlip { .. } => "bit_flip",
            Transit::ByteSet { .. } => "byte_set",
            Transit::ZeroRun { .. } => "zero_run",
            Transit::OnesRun { .. } => "ones_run",
            Transit::Truncate { .. } => "eof_for_good",
            Transit::DropChunk { .. } => "drop_chunk",
            Transit::DupChunk { .. } => "dup_chunk",
            Transit::SwapChunks { .. } => "swap_chunks",
            Transit::InsertGarbage { .. } => "garbage_between",
            Transit::GarbageTail { .. } => "garbage_tail",
        }
    }

    pub fn apply(&self, b: &mut Vec<u8>) {
        let n = b.len();
        match self {
            Transit::BitFlip { bit } => {
                if n > 0 {
                    let bit = bit % (n * 8);
                    b[bit / 8] ^= 0x80 >> (bit % 8);
                }
            }
            Transit::ByteSet { at, val } => {
                if n > 0 {
                    b[at % n] = *val;
                }
            }
            Transit::ZeroRun { at, len } | Transit::OnesRun { at, len } => {
                if n > 0 {
                    let at = at % n;
                    let v = if matches!(self, Transit::ZeroRun { .. }) { 0 } else { 0xFF };
                    for x in b.iter_mut().skip(at).take(*len) {
                        *x = v;
                    }
                }
            }
            Transit::Truncate { len } => b.truncate(*len),
            Transit::DropChunk { at, len } => {
                if n > 0 {
                    let at = at % n;
                    let end = (at + len).min(n);
                    b.drain(at..end);
                }
            }
            Transit::DupChunk { at, len } => {
                if n > 0 {
                    let at = at % n;
                    let end = (at + len).min(n);
                    let chunk: Vec<u8> = b[at..end].to_vec();
                    let tail = b.split_off(end);
                    b.extend_from_slice(&chunk);
                    b.extend_from_slice(&tail);
                }
            }
            Transit::SwapChunks { a, b: bb, len } => {
                if n >= 2 {
                    let len = (*len).max(1);
                    let a = a % n;
                    let c = bb % n;
                    let (lo, hi) = (a.min(c), a.max(c));
                    if lo + len <= hi && hi + len <= n {
                        for i in 0..len {
                            b.swap(lo + i, hi + i);
                        }
                    }
                }
            }
            Transit::InsertGarbage { at, bytes } => {
                let at = if n == 0 { 0 } else { at % (n + 1) };
                let tail = b.split_off(at);
                b.extend_from_slice(bytes);
                b.extend_from_slice(&tail);
            }
            Transit::GarbageTail { bytes } => b.extend_from_slice(bytes),
        }
    }

    /// Draw a transit fault for a picture of `n` bytes whose header ends at bit
    /// `hdr_bits` (faults are biased towards the header: that is where a single
    /// bit changes the size, type or quantizer).
    pub fn draw(rng: &mut Rng, n: usize, hdr_bits: usize) -> Transit {
        let n1 = n.max(1);
        let pos = |rng: &mut Rng| -> usize {
            if rng.chance(1, 3) {
                rng.usize((hdr_bits / 8 + 2).min(n1))
            } else {
                rng.usize(n1)
            }
        };
        match rng.below(11) {
            0 | 1 => {
                let bit = if rng.chance(1, 2) { rng.usize(hdr_bits.max(1).min(n1 * 8)) } else { rng.usize(n1 * 8) };
                Transit::BitFlip { bit }
            }
            2 => Transit::ByteSet { at: pos(rng), val: *rng.pick(&[0u8, 0xFF, 0x80, 0x01, 0x7F]) },
            3 => Transit::ByteSet { at: pos(rng), val: rng.byte() },
            4 => Transit::ZeroRun { at: pos(rng), len: 1 + rng.usize(4) },
            5 => Transit::OnesRun { at: pos(rng), len: 1 + rng.usize(4) },
            6 => Transit::Truncate { len: rng.usize(n1 + 1) },
            7 => Transit::DropChunk { at: pos(rng), len: 1 + rng.usize(8) },
            8 => Transit::DupChunk { at: pos(rng), len: 1 + rng.usize(8) },
            9 => Transit::SwapChunks { a: pos(rng), b: pos(rng), len: 1 + rng.usize(4) },
            _ => {
                let k = 1 + rng.usize(12);
                if rng.bool() {
                    Transit::GarbageTail { bytes: rng.bytes(k) }
                } else {
                    Transit::InsertGarbage { at: pos(rng), bytes: rng.bytes(k) }
                }
            }
        }
    }
}

/// One picture ("message") of a plan.
#[derive(Clone, Debug, Serialize, Deserialize)]
pub struct PlanPic {
    /// Semantic description, if the picture came from the encoder.
    pub spec: Option<PicSpec>,
    /// Transit faults applied, in order, to the encoded bytes.
    pub transit: Vec<Transit>,
    /// The final bytes the source will deliver (replay uses these, not the encoder).
    #[serde(with = "hex")]
    pub bytes: Vec<u8>,
    pub note: String,
}

impl PlanPic {
    pub fn from_spec(spec: PicSpec, transit: Vec<Transit>, note: &str) -> (PlanPic, Marks) {
        let (mut bytes, marks) = encode(&spec);
        for t in &transit {
            t.apply(&mut bytes);
        }
        (PlanPic { spec: Some(spec), transit, bytes, note: note.to_string() }, marks)
    }
    pub fn raw(bytes: Vec<u8>, note: &str) -> PlanPic {
        PlanPic { spec: None, transit: Vec::new(), bytes, note: note.to_string() }
    }
    /// Re-encode after the minimiser edited `spec` or `transit`.
    pub fn rebuild(&mut self) {
        if let Some(s) = &self.spec {
            let (mut bytes, _) = encode(s);
            for t in &self.transit {
                t.apply(&mut bytes);
            }
            self.bytes = bytes;
        }
    }
    pub fn is_clean_valid(&self) -> bool {
        self.spec.is_some() && self.transit.is_empty()
    }
}

/// Events of a decoder session.
#[derive(Clone, Debug, PartialEq, Eq, Serialize, Deserialize)]
pub enum Ev {
    /// (Re)create decoder `d` with the given option bits.
    New { d: usize, opts: u8 },
    /// Give decoder `d` a fresh reader on a fresh pipe.
    Reader { d: usize },
    /// Append bytes `from..to` of picture `pic` to decoder `d`'s pipe.
    Feed { d: usize, pic: usize, from: usize, to: usize },
    /// Arm a source fault at the `n`-th read from now.
    Arm { d: usize, n: u64, kind: SrcFault },
    Decode { d: usize },
    Cleanup { d: usize },
}

#[derive(Clone, Debug, Serialize, Deserialize)]
pub struct Session {
    pub note: String,
    pub pics: Vec<PlanPic>,
    pub events: Vec<Ev>,
    /// Swarm knob: every source of this run hands out at most this many bytes
    /// per read (0 = unlimited).  Invisible to code that reads byte by byte; it
    /// matters the moment someone batches reads.
    #[serde(default)]
    pub max_chunk: usize,
    /// Memory screen of this session in luma samples (0 = the default 2^22).  Only
    /// sessions that deliberately decode a few very large VALID pictures raise it.
    #[serde(default)]
    pub screen: u64,
}

#[derive(Clone, Copy, Debug, PartialEq, Eq)]
pub enum Tier {
    Quick,
    Thorough,
}

impl Tier {
    pub fn name(self) -> &'static str {
        match self {
            Tier::Quick => "quick",
            Tier::Thorough => "thorough",
        }
    }
}

#[derive(Clone, Debug, Serialize, Deserialize)]
pub struct Violation {
    /// Stable identifier of the failure (panic site + normalised message, or
    /// oracle clause + shape).  Minimisation preserves it; known findings match on it.
    pub class: String,
    pub detail: String,
}

/// Generic shrink helpers -----------------------------------------------------

/// Candidates with chunks of `events` removed (ddmin style: halves, quarters, singles).
pub fn drop_chunks<T: Clone>(xs: &[T]) -> Vec<Vec<T>> {
    let n = xs.len();
    let mut out = Vec::new();
    let mut size = n / 2;
    while size >= 1 {
        let mut start = 0;
        while start < n {
            let end = (start + size).min(n);
            let mut v = xs[..start].to_vec();
            v.extend_from_slice(&xs[end..]);
            out.push(v);
            start += size;
        }
        if size == 1 {
            break;
        }
        size /= 2;
    }
    out
}
