//! `SimSource`: the only "wire" the system under test ever sees (STUB).  It
//! implements `std::io::Read` over a shared pipe and injects the source-side
//! fault kinds.  Every call of `read` is one simulator step and, in C17 runs,
//! one pre-emption point (the yield hook).

use std::io::{Error, ErrorKind, Read};
use std::sync::{Arc, Mutex};

use serde::{Deserialize, Serialize};

#[derive(Clone, Copy, Debug, PartialEq, Eq, Serialize, Deserialize)]
pub enum SrcFault {
    /// `ErrorKind::Interrupted`: must be invisible (retried by `read_exact`).
    Eintr,
    /// Hard errors: the call must fail atomically, a retry must succeed.
    TimedOut,
    ConnReset,
    Other,
    /// `ErrorKind::WouldBlock` – what a non-blocking source returns.
    WouldBlock,
    /// Less common error kinds a `Read` implementation may return.
    InvalidData,
    OutOfMemory,
    BrokenPipe,
    /// `ErrorKind::UnexpectedEof` reported by the source itself although more
    /// data follows (a source that lies about EOF once).
    SpuriousEof,
}

impl SrcFault {
    pub fn to_error(self) -> Error {
        match self {
            SrcFault::Eintr => Error::new(ErrorKind::Interrupted, "sim: EINTR"),
            SrcFault::TimedOut => Error::new(ErrorKind::TimedOut, "sim: timed out"),
            SrcFault::ConnReset => Error::new(ErrorKind::ConnectionReset, "sim: reset"),
            SrcFault::Other => Error::new(ErrorKind::Other, "sim: other"),
            SrcFault::WouldBlock => Error::new(ErrorKind::WouldBlock, "sim: would block"),
            SrcFault::InvalidData => Error::new(ErrorKind::InvalidData, "sim: invalid data"),
            SrcFault::OutOfMemory => Error::new(ErrorKind::OutOfMemory, "sim: out of memory"),
            SrcFault::BrokenPipe => Error::new(ErrorKind::BrokenPipe, "sim: broken pipe"),
            SrcFault::SpuriousEof => Error::new(ErrorKind::UnexpectedEof, "sim: spurious eof"),
        }
    }
    pub const HARD: [SrcFault; 7] = [SrcFault::TimedOut, SrcFault::ConnReset, SrcFault::Other, SrcFault::WouldBlock, SrcFault::InvalidData, SrcFault::OutOfMemory, SrcFault::BrokenPipe];
}

#[derive(Default, Debug)]
pub struct Pipe {
    pub data: Vec<u8>,
    pub pos: usize,
    /// Number of `read` calls so far (all of them, including failing ones).
    pub reads: u64,
    /// Reads that returned `Ok(0)` because the pipe was drained.
    pub eof_reads: u64,
    /// Armed faults: (absolute read index at which to fire, kind).
    pub armed: Vec<(u64, SrcFault)>,
    /// Faults that actually fired: kind -> count.
    pub fired: Vec<(SrcFault, u64)>,
    /// Step budget: if `reads` exceeds this the source panics with a marker
    /// message (a decoder that loops without consuming input).
    pub budget: u64,
    /// Maximum number of bytes handed out per read (short reads).
    pub max_chunk: usize,
    /// A drained source answers `Err(UnexpectedEof)` WITH a payload (what framing /
    /// decompressing readers do) instead of `Ok(0)`.
    pub eof_as_error: bool,
}

impl Pipe {
    pub fn note_fired(&mut self, k: SrcFault) {
        for e in self.fired.iter_mut() {
            if e.0 == k {
                e.1 += 1;
                return;
            }
        }
        self.fired.push((k, 1));
    }
}

pub type SharedPipe = Arc<Mutex<Pipe>>;

pub fn new_pipe() -> SharedPipe {
    Arc::new(Mutex::new(Pipe { budget: u64::MAX, max_chunk: usize::MAX, ..Default::default() }))
}

pub const BUDGET_MARKER: &str = "SIM-STEP-BUDGET-EXCEEDED";

/// Hook called at every read (used by the C17 baton scheduler as its yield
/// point).  Thread-local so that each simulated caller thread has its own.
thread_local! {
    pub static YIELD_HOOK: std::cell::RefCell<Option<Box<dyn FnMut()>>> = const { std::cell::RefCell::new(None) };
}

pub struct SimSource {
    pub pipe: SharedPipe,
}

impl SimSource {
    pub fn new(pipe: SharedPipe) -> Self {
        SimSource { pipe }
    }
}

impl Read for SimSource {
    fn read(&mut self, buf: &mut [u8]) -> std::io::Result<usize> {
        YIELD_HOOK.with(|h| {
            if let Some(f) = h.borrow_mut().as_mut() {
                f();
            }
        });
        let mut p = self.pipe.lock().unwrap_or_else(|e| e.into_inner());
        p.reads += 1;
        if p.reads > p.budget {
            let r = p.reads;
            drop(p);
            panic!("{BUDGET_MARKER}: {r} source reads in one call");
        }
        let now = p.reads;
        if let Some(ix) = p.armed.iter().position(|a| a.0 == now) {
            let (_, kind) = p.armed.remove(ix);
            p.note_fired(kind);
            return Err(kind.to_error());
        }
        if buf.is_empty() {
            return Ok(0);
        }
        if p.pos >= p.data.len() {
            p.eof_reads += 1;
            if p.eof_as_error {
                return Err(Error::new(ErrorKind::UnexpectedEof, "sim: end of source"));
            }
            return Ok(0);
        }
        let n = buf.len().min(p.data.len() - p.pos).min(p.max_chunk.max(1));
        let start = p.pos;
        buf[..n].copy_from_slice(&p.data[start..start + n]);
        p.pos += n;
        Ok(n)
    }
}
