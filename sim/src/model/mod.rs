//! Reference models used as oracles (STUBS: small, written from the
//! Recommendation / the property text, sharing no code with /repo).
pub mod reader;
pub mod recon;
