//! Model P — prediction / reconstruction of a picture from a reference
//! snapshot and a picture spec.  Written from H.263 (01/2005) 6.1.1, 6.1.2,
//! 6.2, 6.3 and Annex A; f64 arithmetic; independent of /repo's code.

use crate::exec::Snap;
use crate::spec::*;

pub const ZIGZAG: [(usize, usize); 64] = {
    // (column u, row v) of the k-th coefficient in zig-zag scan order (Figure 14/H.263)
    let mut t = [(0usize, 0usize); 64];
    let mut k = 0;
    let mut s = 0; // anti-diagonal index u+v
    while s <= 14 {
        // even diagonals run bottom-left -> top-right, odd ones top-right -> bottom-left
        let mut i = 0;
        while i <= s {
            let (u, v) = if s % 2 == 0 { (i, s - i) } else { (s - i, i) };
            if u < 8 && v < 8 {
                t[k] = (u, v);
                k += 1;
            }
            i += 1;
        }
        s += 1;
    }
    t
};

#[derive(Clone, Copy, Debug, Default, PartialEq, Eq)]
pub struct Mv {
    pub x: i32,
    pub y: i32,
}

fn median3(a: i32, b: i32, c: i32) -> i32 {
    a.max(b).min(a.min(b).max(c))
}

/// Wrap predictor + differential into [-32, 31] half-sample units.
pub fn wrap_mv(p: i32, d: i32) -> i32 {
    (p + d + 32).rem_euclid(64) - 32
}

/// Chroma vector component from the sum of the four luma components (in half
/// samples): sum/8 in sixteenth resolution, rounded by Table 16 (sign-magnitude).
pub fn chroma_mv(sum: i32) -> i32 {
    let a = sum.abs();
    let whole = a / 16; // full chroma samples
    let frac = a % 16;
    let half_units = whole * 2
        + match frac {
            0..=2 => 0,
            3..=13 => 1,
            _ => 2,
        };
    if sum < 0 {
        -half_units
    } else {
        half_units
    }
}

/// Statistics probes the C03 check reports as reach evidence.
#[derive(Default, Clone, Debug)]
pub struct Probes {
    pub wrap_pos: u64,
    pub wrap_neg: u64,
    pub median_pick: [u64; 3],
    pub border_left: u64,
    pub border_top: u64,
    pub border_right: u64,
    pub phase: [u64; 4],
    pub clamp_edge: [u64; 4],
    pub four_mv_distinct: u64,
    pub chroma_round: [u64; 3],
    pub tolerance_samples: u64,
    pub intra_in_p: u64,
    pub not_coded: u64,
}

pub struct Expect {
    pub w: usize,
    pub h: usize,
    pub cw: usize,
    pub ch: usize,
    /// Per sample: (lowest acceptable, highest acceptable) value.
    pub y: Vec<(u8, u8)>,
    pub cb: Vec<(u8, u8)>,
    pub cr: Vec<(u8, u8)>,
    pub vectors: Vec<[Mv; 4]>,
}

fn sample(plane: &[u8], w: usize, h: usize, x: i64, y: i64, pr: &mut Probes) -> i32 {
    let cx = if x < 0 {
        pr.clamp_edge[0] += 1;
        0
    } else if x >= w as i64 {
        pr.clamp_edge[1] += 1;
        w as i64 - 1
    } else {
        x
    };
    let cy = if y < 0 {
        pr.clamp_edge[2] += 1;
        0
    } else if y >= h as i64 {
        pr.clamp_edge[3] += 1;
        h as i64 - 1
    } else {
        y
    };
    plane[cx as usize + cy as usize * w] as i32
}

/// Motion-compensated 8x8 block at (bx, by) of a plane of size w x h.
fn predict_block(refp: &[u8], w: usize, h: usize, bx: usize, by: usize, mv: Mv, out: &mut [i32], pr: &mut Probes) {
    let ix = mv.x.div_euclid(2) as i64;
    let iy = mv.y.div_euclid(2) as i64;
    let fx = mv.x.rem_euclid(2) == 1;
    let fy = mv.y.rem_euclid(2) == 1;
    pr.phase[(fx as usize) + 2 * (fy as usize)] += 1;
    for j in 0..8usize {
        for i in 0..8usize {
            let x = bx + i;
            let y = by + j;
            if x >= w || y >= h {
                continue;
            }
            let sx = x as i64 + ix;
            let sy = y as i64 + iy;
            let a = sample(refp, w, h, sx, sy, pr);
            let v = match (fx, fy) {
                (false, false) => a,
                (true, false) => (a + sample(refp, w, h, sx + 1, sy, pr) + 1) / 2,
                (false, true) => (a + sample(refp, w, h, sx, sy + 1, pr) + 1) / 2,
                (true, true) => {
                    (a + sample(refp, w, h, sx + 1, sy, pr)
                        + sample(refp, w, h, sx, sy + 1, pr)
                        + sample(refp, w, h, sx + 1, sy + 1, pr)
                        + 2)
                        / 4
                }
            };
            out[x + y * w] = v;
        }
    }
}

/// Dequantise one block into an 8x8 coefficient matrix F[v][u]; returns the
/// matrix and the sum of |F|.  `None` if a run leaves the block (invalid spec).
pub fn dequant_block(b: &BlockSpec, intra: bool, q: u8) -> Option<([[f64; 8]; 8], f64)> {
    let mut f = [[0.0f64; 8]; 8];
    let mut sum = 0.0;
    let mut idx = 0usize;
    if intra {
        let level = if b.dc == 255 { 1024.0 } else { b.dc as f64 * 8.0 };
        f[0][0] = level;
        sum += level;
        idx = 1;
    }
    for c in &b.coefs {
        idx += c.run as usize;
        if idx >= 64 {
            return None;
        }
        let l = c.level.unsigned_abs() as i64;
        let q = q as i64;
        let mut mag = q * (2 * l + 1);
        if q % 2 == 0 {
            mag -= 1;
        }
        let mut v = if c.level < 0 { -mag } else { mag };
        v = v.clamp(-2048, 2047);
        let (u, vv) = ZIGZAG[idx];
        f[vv][u] = v as f64;
        sum += (v as f64).abs();
        idx += 1;
    }
    Some((f, sum))
}

fn cos_table() -> &'static [[f64; 8]; 8] {
    // T[u][x] = C(u) * cos((2x+1) u pi / 16)
    static T: std::sync::OnceLock<[[f64; 8]; 8]> = std::sync::OnceLock::new();
    T.get_or_init(|| {
        let mut t = [[0.0f64; 8]; 8];
        for u in 0..8 {
            for x in 0..8 {
                let c = if u == 0 { std::f64::consts::FRAC_1_SQRT_2 } else { 1.0 };
                t[u][x] = c * ((2 * x + 1) as f64 * u as f64 * std::f64::consts::PI / 16.0).cos();
            }
        }
        t
    })
}

/// Ideal 8x8 inverse DCT (H.263 6.2.4 / Annex A), direct double sum in f64.
fn idct8x8(f: &[[f64; 8]; 8]) -> [[f64; 8]; 8] {
    let t = cos_table();
    let mut out = [[0.0f64; 8]; 8];
    for v in 0..8 {
        for u in 0..8 {
            let c = f[v][u];
            if c != 0.0 {
                for y in 0..8 {
                    let cy = c * t[v][y];
                    for x in 0..8 {
                        out[y][x] += cy * t[u][x];
                    }
                }
            }
        }
    }
    for row in out.iter_mut() {
        for s in row.iter_mut() {
            *s /= 4.0;
        }
    }
    out
}

fn add_residual(
    plane: &mut [(u8, u8)],
    pred: &[i32],
    w: usize,
    h: usize,
    bx: usize,
    by: usize,
    res: Option<(&[[f64; 8]; 8], f64)>,
    pr: &mut Probes,
) {
    for j in 0..8 {
        for i in 0..8 {
            let x = bx + i;
            let y = by + j;
            if x >= w || y >= h {
                continue;
            }
            let p = pred[x + y * w];
            match res {
                None => plane[x + y * w] = (p.clamp(0, 255) as u8, p.clamp(0, 255) as u8),
                Some((r, sum)) => {
                    let v = r[j][i];
                    let eps = 2e-6 * sum + 1e-4;
                    // round to nearest, ties away from zero
                    let near = if v >= 0.0 { (v + 0.5).floor() } else { (v - 0.5).ceil() };
                    let mut lo = near;
                    let mut hi = near;
                    let frac = (v.abs() + 0.5).fract(); // 0 at a rounding boundary
                    if frac < eps || frac > 1.0 - eps {
                        pr.tolerance_samples += 1;
                        // both neighbours of the boundary
                        let b = (v.abs() + 0.5).round() - 0.5; // the boundary magnitude
                        let (a1, a2) = ((b - 0.5), (b + 0.5));
                        let (c1, c2) = if v < 0.0 { (-a2, -a1) } else { (a1, a2) };
                        lo = lo.min(c1);
                        hi = hi.max(c2);
                    }
                    let fin = |r: f64| -> u8 { ((r as i32).clamp(-256, 255) + p).clamp(0, 255) as u8 };
                    let (a, b) = (fin(lo), fin(hi));
                    plane[x + y * w] = (a.min(b), a.max(b));
                }
            }
        }
    }
}

/// Compute the expected picture.  `present` = number of macroblocks of
/// `spec.mbs` that the decoder is expected to have decoded; all later ones are
/// treated as not coded ("after an early end of data").  `reference` may be
/// `None` only if no inter macroblock is used.
pub fn expect_picture(reference: Option<&Snap>, spec: &PicSpec, present: usize, pr: &mut Probes) -> Result<Expect, String> {
    let w = spec.width as usize;
    let h = spec.height as usize;
    let cw = (w + 1) / 2;
    let ch = (h + 1) / 2;
    let cols = spec.mb_cols();
    let count = spec.mb_count();
    let intra_pic = spec.ptype == PType::I;
    if let Some(r) = reference {
        if r.width as usize != w || r.height as usize != h {
            return Err("reference has another size".into());
        }
    }
    // 1. vectors
    let mut vectors: Vec<[Mv; 4]> = Vec::with_capacity(count);
    let mut inter: Vec<bool> = Vec::with_capacity(count);
    for n in 0..count {
        let mb = if n < present { spec.mbs.get(n) } else { None };
        let mx = n % cols;
        let my = n / cols;
        let mut cur = [Mv::default(); 4];
        let mut is_inter = !intra_pic;
        match mb {
            Some(MbSpec::Coded { kind, mvd, .. }) if !kind_is_intra(*kind) => {
                let four = kind_has_4v(*kind);
                let nvec = if four { 4 } else { 1 };
                for b in 0..nvec {
                    let zero = Mv::default();
                    let mv1 = match b {
                        0 | 2 => {
                            if mx == 0 {
                                pr.border_left += 1;
                                zero
                            } else {
                                vectors[n - 1][b + 1]
                            }
                        }
                        _ => cur[b - 1],
                    };
                    let mv2 = match b {
                        0 | 1 => {
                            if my == 0 {
                                pr.border_top += 1;
                                mv1
                            } else {
                                vectors[n - cols][b + 2]
                            }
                        }
                        _ => cur[0],
                    };
                    let mv3 = match b {
                        0 | 1 => {
                            if mx == cols - 1 {
                                pr.border_right += 1;
                                zero
                            } else if my == 0 {
                                mv1
                            } else {
                                vectors[n - cols + 1][2]
                            }
                        }
                        _ => cur[1],
                    };
                    let px = median3(mv1.x, mv2.x, mv3.x);
                    let py = median3(mv1.y, mv2.y, mv3.y);
                    for (k, c) in [mv1, mv2, mv3].iter().enumerate() {
                        if c.x == px && (mv1.x != mv2.x || mv2.x != mv3.x) {
                            pr.median_pick[k] += 1;
                            break;
                        }
                    }
                    let d = mvd[b];
                    let sx = px + d.0 as i32;
                    let sy = py + d.1 as i32;
                    for s in [sx, sy] {
                        if s > 31 {
                            pr.wrap_pos += 1;
                        }
                        if s < -32 {
                            pr.wrap_neg += 1;
                        }
                    }
                    cur[b] = Mv { x: wrap_mv(px, d.0 as i32), y: wrap_mv(py, d.1 as i32) };
                }
                if !four {
                    cur = [cur[0]; 4];
                } else if cur[0] != cur[1] || cur[1] != cur[2] || cur[2] != cur[3] {
                    pr.four_mv_distinct += 1;
                }
            }
            Some(MbSpec::Coded { .. }) => {
                is_inter = false;
                if !intra_pic {
                    pr.intra_in_p += 1;
                }
            }
            Some(MbSpec::NotCoded) | None => {
                if !intra_pic {
                    pr.not_coded += 1;
                }
            }
        }
        vectors.push(cur);
        inter.push(is_inter);
    }
    // 2. prediction
    let mut py = vec![0i32; w * h];
    let mut pcb = vec![0i32; cw * ch];
    let mut pcr = vec![0i32; cw * ch];
    for n in 0..count {
        if !inter[n] {
            continue;
        }
        let r = reference.ok_or_else(|| "inter macroblock without a reference".to_string())?;
        let mx = n % cols;
        let my = n / cols;
        let v = vectors[n];
        for b in 0..4 {
            predict_block(&r.y, w, h, mx * 16 + (b % 2) * 8, my * 16 + (b / 2) * 8, v[b], &mut py, pr);
        }
        let sx: i32 = v.iter().map(|m| m.x).sum();
        let sy: i32 = v.iter().map(|m| m.y).sum();
        for s in [sx, sy] {
            let f = s.abs() % 16;
            pr.chroma_round[match f {
                0..=2 => 0,
                3..=13 => 1,
                _ => 2,
            }] += 1;
        }
        let cv = Mv { x: chroma_mv(sx), y: chroma_mv(sy) };
        predict_block(&r.cb, cw, ch, mx * 8, my * 8, cv, &mut pcb, pr);
        predict_block(&r.cr, cw, ch, mx * 8, my * 8, cv, &mut pcr, pr);
    }
    // 3. residual
    let mut ey = vec![(0u8, 0u8); w * h];
    let mut ecb = vec![(0u8, 0u8); cw * ch];
    let mut ecr = vec![(0u8, 0u8); cw * ch];
    let mut q = spec.quant;
    for n in 0..count {
        let mx = n % cols;
        let my = n / cols;
        let mb = if n < present { spec.mbs.get(n) } else { None };
        let mut res: [Option<([[f64; 8]; 8], f64)>; 6] = [None, None, None, None, None, None];
        if let Some(MbSpec::Coded { kind, dquant, blocks, .. }) = mb {
            if kind_has_q(*kind) {
                q = (q as i32 + *dquant as i32).clamp(1, 31) as u8;
            }
            let intra = kind_is_intra(*kind);
            for (i, b) in blocks.iter().enumerate().take(6) {
                if intra || !b.coefs.is_empty() {
                    let (f, sum) = dequant_block(b, intra, q).ok_or_else(|| "run leaves the block".to_string())?;
                    res[i] = Some((idct8x8(&f), sum));
                }
            }
        }
        for b in 0..4 {
            add_residual(
                &mut ey,
                &py,
                w,
                h,
                mx * 16 + (b % 2) * 8,
                my * 16 + (b / 2) * 8,
                res[b].as_ref().map(|r| (&r.0, r.1)),
                pr,
            );
        }
        add_residual(&mut ecb, &pcb, cw, ch, mx * 8, my * 8, res[4].as_ref().map(|r| (&r.0, r.1)), pr);
        add_residual(&mut ecr, &pcr, cw, ch, mx * 8, my * 8, res[5].as_ref().map(|r| (&r.0, r.1)), pr);
    }
    Ok(Expect { w, h, cw, ch, y: ey, cb: ecb, cr: ecr, vectors })
}

/// Compare a real snapshot with the expectation; returns a description of the
/// first mismatch.
pub fn compare(e: &Expect, s: &Snap) -> Result<(), String> {
    if s.width as usize != e.w || s.height as usize != e.h {
        return Err(format!("size {}x{} != expected {}x{}", s.width, s.height, e.w, e.h));
    }
    if s.y.len() != e.w * e.h || s.cb.len() != e.cw * e.ch || s.cr.len() != e.cw * e.ch {
        return Err(format!(
            "plane lengths {}/{}/{} != expected {}/{}/{}",
            s.y.len(),
            s.cb.len(),
            s.cr.len(),
            e.w * e.h,
            e.cw * e.ch,
            e.cw * e.ch
        ));
    }
    for (name, real, exp, stride) in [("Y", &s.y, &e.y, e.w), ("Cb", &s.cb, &e.cb, e.cw), ("Cr", &s.cr, &e.cr, e.cw)] {
        for (i, (r, x)) in real.iter().zip(exp.iter()).enumerate() {
            if *r < x.0 || *r > x.1 {
                let (px, py) = (i % stride.max(1), i / stride.max(1));
                let div = if name == "Y" { 16 } else { 8 };
                return Err(format!(
                    "{name}[{px},{py}] (macroblock {},{}) = {r}, model expects {}..={}",
                    px / div,
                    py / div,
                    x.0,
                    x.1
                ));
            }
        }
    }
    Ok(())
}
