//! Model R — bit-vector model of `H263Reader` (filled in by the C14 check).
