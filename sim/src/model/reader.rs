//! Model R — a plain bit-vector model of `H263Reader`, written from the
//! property statement (C14) and the reader's doc comments, not from its code.
//! State: the bits delivered so far, and an absolute bit position.

#[derive(Clone, Copy, Debug, PartialEq, Eq)]
pub enum MErr {
    /// End of data: the operation needs bits that have not been delivered.
    Eof,
    /// The request itself is invalid (width larger than the type, broken table).
    Internal,
}

#[derive(Clone, Debug, Default)]
pub struct ReaderModel {
    pub data: Vec<u8>,
    pub pos: usize,
}

impl ReaderModel {
    pub fn avail(&self) -> usize {
        self.data.len() * 8
    }
    pub fn bit(&self, i: usize) -> u64 {
        ((self.data[i / 8] >> (7 - i % 8)) & 1) as u64
    }
    /// The `n` bits at the current position, MSB first, zero-extended.
    pub fn peek(&self, n: u32, width: u32) -> Result<u64, MErr> {
        if n > width {
            return Err(MErr::Internal);
        }
        if n == 0 {
            return Ok(0);
        }
        if self.pos + n as usize > self.avail() {
            return Err(MErr::Eof);
        }
        let mut v = 0u64;
        for i in 0..n as usize {
            v = (v << 1) | self.bit(self.pos + i);
        }
        Ok(v)
    }
    /// Two's-complement sign extension of the `n`-bit value to `width` bits.
    pub fn peek_signed(&self, n: u32, width: u32) -> Result<u64, MErr> {
        let v = self.peek(n, width)?;
        if n == 0 {
            return Ok(0);
        }
        let mask = if width == 64 { u64::MAX } else { (1u64 << width) - 1 };
        if (v >> (n - 1)) & 1 == 1 {
            let ext = if n >= 64 { 0 } else { u64::MAX << n };
            Ok((v | ext) & mask)
        } else {
            Ok(v)
        }
    }
    pub fn skip(&mut self, n: u32) -> Result<(), MErr> {
        if self.pos + n as usize > self.avail() {
            return Err(MErr::Eof);
        }
        self.pos += n as usize;
        Ok(())
    }
    /// Does a start code (16 zeros then a one) begin at absolute bit `at`?
    /// `None` if the data ends before that can be told.
    pub fn start_code_at(&self, at: usize) -> Option<bool> {
        for i in 0..17 {
            if at + i >= self.avail() {
                return None;
            }
            let b = self.bit(at + i);
            if i < 16 && b != 0 {
                return Some(false);
            }
            if i == 16 {
                return Some(b == 1);
            }
        }
        None
    }
    pub fn realign(&self) -> usize {
        (8 - self.pos % 8) % 8
    }
}
