//! Property trait, worker loop, minimiser, replay, and the parent driver that
//! spawns worker processes, watches them, collects results, applies the
//! known-findings list and writes the evidence file.

use crate::plan::{Tier, Violation};
use crate::rng::{fnv1a, run_seed, Rng};
use crate::stats::Stats;
use serde::de::DeserializeOwned;
use serde::{Deserialize, Serialize};
use serde_json::{json, Value};
use std::collections::BTreeMap;
use std::io::{BufRead, BufReader, Write};
use std::path::{Path, PathBuf};
use std::process::{Command, Stdio};
use std::sync::atomic::{AtomicI64, AtomicU64, Ordering};
use std::sync::Arc;
use std::time::{Duration, Instant};

pub trait Property {
    type Plan: Serialize + DeserializeOwned + Clone + Send + Sync;
    const ID: &'static str;
    /// `exploration` or `fault_enumeration`.
    const LEVEL: &'static str;
    /// How cases are generated and what counts as distinct / non-trivial.
    const RULE: &'static str;
    /// If non-zero: that many runs (x10 in the thorough tier) are re-executed in
    /// two further groups of fresh processes (8 and 5 workers) and their history
    /// digests compared; a difference is a violation of this property.
    const CROSS_PROCESS_RUNS: u64 = 0;
    /// Whether a worker death or hang during a run is a violation of THIS property
    /// (C01: "never crashes or hangs"; C14 for reader operations) or merely counted.
    const JUDGES_CRASHES: bool = false;
    fn runs(tier: Tier) -> u64;
    fn generate(rng: &mut Rng, tier: Tier) -> Self::Plan;
    /// Execute a plan against the real code; `None` = property held.
    fn execute(plan: &Self::Plan, st: &mut Stats) -> Option<Violation>;
    /// Simpler variants of a plan, most aggressive first.
    fn shrink(plan: &Self::Plan) -> Vec<Self::Plan>;
    fn assumptions() -> Vec<String>;
    /// Extra evidence (e.g. probes that must not stay at zero).
    fn probe_names() -> Vec<&'static str> {
        Vec::new()
    }
    /// Names of the runs executed once per check in addition to the seeded
    /// ones (systematic sweeps).  Executed by worker 0.
    fn sweeps(_tier: Tier) -> Vec<Self::Plan> {
        Vec::new()
    }
}

pub fn verif_dir() -> PathBuf {
    if let Ok(d) = std::env::var("VERIF_DIR") {
        return PathBuf::from(d);
    }
    // the binary lives in <verif>/sim/target/release/
    let exe = std::env::current_exe().unwrap_or_default();
    let mut p = exe.clone();
    for _ in 0..4 {
        p.pop();
    }
    if p.join("properties.jsonl").exists() {
        p
    } else {
        PathBuf::from("/verif")
    }
}

#[derive(Serialize, Deserialize)]
pub struct FoundViolation {
    pub run: i64, // -1-k for sweep k
    pub class: String,
    pub detail: String,
    pub plan: Value,
}

#[derive(Serialize, Deserialize, Default)]
pub struct WorkerOut {
    pub stats: Stats,
    pub violations: Vec<FoundViolation>,
    pub runs_done: u64,
    pub digests: Vec<(i64, u64, u64)>,
    pub replay_checked: u64,
    pub replay_mismatches: u64,
}

fn plan_digest<P: Property>(plan: &P::Plan) -> u64 {
    fnv1a(serde_json::to_string(plan).unwrap_or_default().as_bytes())
}

fn exec_guarded<P: Property>(plan: &P::Plan, st: &mut Stats) -> Option<Violation> {
    // Every run executes on a FRESH thread, so that thread-local state inside the
    // code under test cannot leak from one run (one decoder instance) into the
    // next: whether instances influence one another is C17's question, and a run's
    // history must not depend on which runs the same worker executed before it.
    //
    // A panic inside the *harness* (not inside a guarded call into the code under
    // test) must not take the worker down silently: it is reported as a harness
    // error class, which the driver turns into exit 2.
    std::thread::scope(|sc| {
        let h = std::thread::Builder::new().stack_size(2 << 20).spawn_scoped(sc, || {
            match std::panic::catch_unwind(std::panic::AssertUnwindSafe(|| P::execute(plan, st))) {
                Ok(v) => v,
                Err(_) => {
                    let p = crate::exec::take_panic();
                    let in_code_under_test = ["h263/src/", "deblock/src/", "yuv/src/"].iter().any(|k| p.contains(k));
                    if in_code_under_test {
                        // the code under test panicked outside a guarded call (an accessor,
                        // a look-ahead): a crash, i.e. C01's verdict; elsewhere the run just ends
                        if P::ID == "C01" {
                            Some(Violation { class: crate::exec::panic_class(&p), detail: format!("panic outside a decode call: {p}") })
                        } else {
                            None
                        }
                    } else {
                        Some(Violation { class: "HARNESS-PANIC".into(), detail: p })
                    }
                }
            }
        });
        match h {
            Ok(h) => h.join().unwrap_or_else(|_| Some(Violation { class: "HARNESS-PANIC".into(), detail: "run thread died".into() })),
            Err(e) => Some(Violation { class: "HARNESS-PANIC".into(), detail: format!("cannot spawn run thread: {e}") }),
        }
    })
}

/// Backstop for the machine, not an oracle: cap the worker's address space so
/// that a decoder that mis-reads a size cannot take the host down.  An
/// allocation failure aborts the worker, which the driver reports as
/// `process-death` for the run that was in flight.
pub fn limit_address_space() {
    let gb: u64 = std::env::var("VERIF_WORKER_AS_GB").ok().and_then(|s| s.parse().ok()).unwrap_or(1);
    let lim = libc::rlimit { rlim_cur: gb << 30, rlim_max: gb << 30 };
    unsafe {
        libc::setrlimit(libc::RLIMIT_AS, &lim);
    }
}

pub fn worker<P: Property>(tier: Tier, seed: u64, start: u64, step: u64, end: u64, out: &Path, want_digests: bool) -> i32 {
    limit_address_space();
    let mut wo = WorkerOut::default();
    let stdout = std::io::stdout();
    let mut i = start;
    let mut say = |s: String| {
        let mut l = stdout.lock();
        let _ = writeln!(l, "{s}");
        let _ = l.flush();
    };
    {
        // the systematic sweeps are shared out among the workers like the seeded runs
        for (k, plan) in P::sweeps(tier).iter().enumerate().filter(|(k, _)| step > 0 && (*k as u64) % step == start % step.max(1) && start < step) {
            let id = -1 - k as i64;
            say(format!("BEGIN {id}"));
            wo.stats.hist = 0;
            if let Some(v) = exec_guarded::<P>(plan, &mut wo.stats) {
                if wo.violations.len() < 40 {
                    wo.violations.push(FoundViolation { run: id, class: v.class, detail: v.detail, plan: serde_json::to_value(plan).unwrap() });
                }
            }
            wo.stats.inc("sweep_runs");
        }
    }
    while i < end {
        say(format!("BEGIN {i}"));
        let mut rng = Rng::new(run_seed(seed, P::ID, i));
        let plan = match std::panic::catch_unwind(std::panic::AssertUnwindSafe(|| P::generate(&mut rng, tier))) {
            Ok(p) => p,
            Err(_) => {
                // a bug in the harness's own generator: reported as a harness error (exit 2)
                wo.violations.push(FoundViolation { run: i as i64, class: "HARNESS-PANIC".into(), detail: format!("plan generator panicked: {}", crate::exec::take_panic()), plan: Value::Null });
                wo.runs_done += 1;
                i += step;
                continue;
            }
        };
        wo.stats.hist = 0;
        let v = exec_guarded::<P>(&plan, &mut wo.stats);
        let hist = wo.stats.hist;
        if i == 0 {
            // one complete plan, exactly as executed, among the evidence samples
            if let Ok(js) = serde_json::to_value(&plan) {
                if js.to_string().len() < 60_000 {
                    wo.stats.samples.insert(0, json!({"full_plan_of_run_0": js}));
                }
            }
        }
        if want_digests {
            wo.digests.push((i as i64, plan_digest::<P>(&plan), hist));
        }
        // thorough tier: re-execute 1% of the runs and compare history digests
        if tier == Tier::Thorough && i % 100 == 7 {
            let mut scratch = Stats::default();
            let v2 = exec_guarded::<P>(&plan, &mut scratch);
            wo.replay_checked += 1;
            if scratch.hist != hist || v2.as_ref().map(|x| &x.class) != v.as_ref().map(|x| &x.class) {
                wo.replay_mismatches += 1;
            }
        }
        if let Some(v) = v {
            wo.stats.inc("violating_runs");
            if wo.violations.len() < 40 {
                let fv = FoundViolation { run: i as i64, class: v.class, detail: v.detail, plan: serde_json::to_value(&plan).unwrap() };
                // also streamed to the driver at once: a worker that later dies or hangs
                // must not take its findings with it
                if let Ok(js) = serde_json::to_string(&fv) {
                    say(format!("FOUND {js}"));
                }
                wo.violations.push(fv);
            }
        }
        wo.runs_done += 1;
        i += step;
    }
    say("DONE".to_string());
    match std::fs::write(out, serde_json::to_vec(&wo).unwrap()) {
        Ok(()) => 0,
        Err(e) => {
            eprintln!("worker: cannot write {}: {e}", out.display());
            2
        }
    }
}

/// Execute a plan given as JSON; returns the violation, if any.
pub fn exec_value<P: Property>(plan: &Value) -> Result<Option<Violation>, String> {
    let p: P::Plan = serde_json::from_value(plan.clone()).map_err(|e| format!("bad plan: {e}"))?;
    let mut st = Stats::default();
    Ok(exec_guarded::<P>(&p, &mut st))
}

/// Minimise `plan` keeping the same violation class.  Budgeted.
pub fn minimise<P: Property>(plan: &Value, class: &str, max_execs: u64, max_time: Duration) -> (Value, u64) {
    let t0 = Instant::now();
    let mut cur: P::Plan = match serde_json::from_value(plan.clone()) {
        Ok(p) => p,
        Err(_) => return (plan.clone(), 0),
    };
    let mut execs = 0u64;
    'outer: loop {
        let cands = P::shrink(&cur);
        for c in cands {
            if execs >= max_execs || t0.elapsed() > max_time {
                break 'outer;
            }
            execs += 1;
            let mut st = Stats::default();
            if let Some(v) = exec_guarded::<P>(&c, &mut st) {
                if v.class == class {
                    cur = c;
                    continue 'outer;
                }
            }
        }
        break;
    }
    (serde_json::to_value(&cur).unwrap(), execs)
}

#[derive(Deserialize, Default)]
pub struct KnownFindings {
    #[serde(default)]
    pub findings: Vec<KnownFinding>,
    #[serde(default)]
    pub fixed: Vec<String>,
}

#[derive(Deserialize, Clone)]
pub struct KnownFinding {
    pub property: String,
    /// Exact violation class this entry covers.
    pub class: String,
    pub what: String,
}

pub fn load_known() -> KnownFindings {
    let p = verif_dir().join("known_findings.json");
    match std::fs::read(&p) {
        Ok(b) => serde_json::from_slice(&b).unwrap_or_default(),
        Err(_) => KnownFindings::default(),
    }
}

fn scratch_dir() -> PathBuf {
    let d = verif_dir().join(".scratch").join(format!("{}", std::process::id()));
    let _ = std::fs::create_dir_all(&d);
    d
}

struct Child {
    proc: std::process::Child,
    last_begin: Arc<AtomicI64>,
    last_time: Arc<AtomicU64>,
    done: Arc<AtomicU64>,
    out: PathBuf,
    start: u64,
    reader: Option<std::thread::JoinHandle<()>>,
    stderr: Arc<std::sync::Mutex<String>>,
    err_reader: Option<std::thread::JoinHandle<()>>,
    streamed: Arc<std::sync::Mutex<Vec<FoundViolation>>>,
}

fn now_ms(t0: Instant) -> u64 {
    t0.elapsed().as_millis() as u64
}

fn spawn_worker(prop: &str, tier: Tier, seed: u64, start: u64, step: u64, end: u64, out: &Path, digests: bool, t0: Instant) -> Child {
    let exe = std::env::current_exe().expect("current_exe");
    let mut cmd = Command::new(exe);
    cmd.arg("worker")
        .arg(prop)
        .arg(tier.name())
        .arg(seed.to_string())
        .arg(start.to_string())
        .arg(step.to_string())
        .arg(end.to_string())
        .arg(out)
        .arg(if digests { "1" } else { "0" })
        // keep freed heap memory in the process: the decoder allocates and frees
        // its level arrays on every call and glibc would otherwise trim / re-fault them
        .env("MALLOC_TRIM_THRESHOLD_", "1073741824")
        .env("MALLOC_TOP_PAD_", "67108864")
        .env("MALLOC_MMAP_THRESHOLD_", "1073741824")
        .env("MALLOC_ARENA_MAX", "1")
        .stdin(Stdio::null())
        .stdout(Stdio::piped())
        .stderr(Stdio::piped());
    let mut proc = cmd.spawn().expect("spawn worker");
    let last_begin = Arc::new(AtomicI64::new(i64::MIN));
    let last_time = Arc::new(AtomicU64::new(now_ms(t0)));
    let done = Arc::new(AtomicU64::new(0));
    let so = proc.stdout.take().unwrap();
    let (lb, lt, dn) = (last_begin.clone(), last_time.clone(), done.clone());
    let streamed = Arc::new(std::sync::Mutex::new(Vec::new()));
    let st2 = streamed.clone();
    let reader = std::thread::spawn(move || {
        for line in BufReader::new(so).lines().map_while(Result::ok) {
            if let Some(rest) = line.strip_prefix("FOUND ") {
                if let Ok(fv) = serde_json::from_str::<FoundViolation>(rest) {
                    st2.lock().unwrap().push(fv);
                }
            } else if let Some(rest) = line.strip_prefix("BEGIN ") {
                if let Ok(i) = rest.trim().parse::<i64>() {
                    lb.store(i, Ordering::SeqCst);
                    lt.store(now_ms(t0), Ordering::SeqCst);
                }
            } else if line == "DONE" {
                dn.store(1, Ordering::SeqCst);
            }
        }
    });
    let stderr = Arc::new(std::sync::Mutex::new(String::new()));
    let se = proc.stderr.take().unwrap();
    let sbuf = stderr.clone();
    let err_reader = std::thread::spawn(move || {
        for line in BufReader::new(se).lines().map_while(Result::ok) {
            let mut b = sbuf.lock().unwrap();
            if b.len() < 16_384 {
                b.push_str(&line);
                b.push('\n');
            }
        }
    });
    Child { proc, last_begin, last_time, done, out: out.to_path_buf(), start, reader: Some(reader), stderr, err_reader: Some(err_reader), streamed }
}

pub struct RunOpts {
    pub tier: Tier,
    pub seed: u64,
    pub workers: u64,
    pub runs_override: Option<u64>,
    pub digests_out: Option<PathBuf>,
    pub quiet: bool,
    pub write_evidence: bool,
}

/// Parent driver for one property.  Returns the process exit code.
pub fn run_check<P: Property>(o: &RunOpts) -> i32 {
    let t0 = Instant::now();
    // VERIF_SCALE multiplies the number of seeded runs of a tier (default 1): the
    // thorough tier is "as deep as built", and deeper is just more runs.
    let scale: u64 = std::env::var("VERIF_SCALE").ok().and_then(|s| s.parse().ok()).filter(|s| *s >= 1).unwrap_or(1);
    let total = o.runs_override.unwrap_or_else(|| P::runs(o.tier) * scale);
    let w = o.workers.max(1).min(total.max(1));
    let dir = scratch_dir();
    let hang_ms: u64 = std::env::var("VERIF_HANG_MS").ok().and_then(|s| s.parse().ok()).unwrap_or(60_000);
    let mut merged = Stats::default();
    let mut found: Vec<FoundViolation> = Vec::new();
    let mut runs_done = 0u64;
    let mut digests: Vec<(i64, u64, u64)> = Vec::new();
    let mut replay_checked = 0u64;
    let mut replay_mismatches = 0u64;
    let mut harness_errors: Vec<String> = Vec::new();
    let want_digests = o.digests_out.is_some();

    // (start, step, end) work items; a worker that dies is restarted after the fatal run.
    let mut children: Vec<Child> = (0..w)
        .map(|k| spawn_worker(P::ID, o.tier, o.seed, k, w, total, &dir.join(format!("w{k}.json")), want_digests, t0))
        .collect();
    let mut respawns = 0;
    while !children.is_empty() {
        std::thread::sleep(Duration::from_millis(20));
        let mut still = Vec::new();
        for mut c in children.drain(..) {
            let status = c.proc.try_wait().ok().flatten();
            let hung = status.is_none() && now_ms(t0).saturating_sub(c.last_time.load(Ordering::SeqCst)) > hang_ms;
            if hung {
                let _ = c.proc.kill();
                let _ = c.proc.wait();
            }
            if status.is_none() && !hung {
                still.push(c);
                continue;
            }
            // the process is gone: let the reader thread drain its stdout so that
            // the last announced run is known exactly
            if let Some(h) = c.reader.take() {
                let _ = h.join();
            }
            if let Some(h) = c.err_reader.take() {
                let _ = h.join();
            }
            let worker_stderr = c.stderr.lock().unwrap().clone();
            // A worker that exits with status 0 has written its result file before
            // exiting; the "DONE" line on its stdout may still be in flight to the
            // reader thread, so it is not required here (requiring it was a race that
            // produced a spurious "process-death" once in ~10^2 checks).
            let clean = !hung && status.map(|s| s.success()).unwrap_or(false) && c.out.exists();
            let _ = &c.done;
            if clean {
                if !worker_stderr.trim().is_empty() {
                    eprint!("{worker_stderr}");
                }
                match std::fs::read(&c.out).ok().and_then(|b| serde_json::from_slice::<WorkerOut>(&b).ok()) {
                    Some(wo) => {
                        merged.merge(wo.stats);
                        found.extend(wo.violations);
                        runs_done += wo.runs_done;
                        digests.extend(wo.digests);
                        replay_checked += wo.replay_checked;
                        replay_mismatches += wo.replay_mismatches;
                    }
                    None => harness_errors.push(format!("worker output {} unreadable", c.out.display())),
                }
                let _ = std::fs::remove_file(&c.out);
                continue;
            }
            // The worker died (signal / abort / stack overflow / OOM) or hung:
            // keep what it had already reported, attribute the death to the run it had
            // announced, then carry on after it.
            found.extend(c.streamed.lock().unwrap().drain(..));
            let at = c.last_begin.load(Ordering::SeqCst);
            let what = if hung {
                "hang: no progress within the watchdog limit".to_string()
            } else {
                format!("worker process died: {:?}", status)
            };
            if at == i64::MIN {
                harness_errors.push(format!("worker died before its first run: {what}"));
                continue;
            }
            let plan: Value = if at >= 0 {
                let mut rng = Rng::new(run_seed(o.seed, P::ID, at as u64));
                serde_json::to_value(P::generate(&mut rng, o.tier)).unwrap()
            } else {
                let sw = P::sweeps(o.tier);
                serde_json::to_value(&sw[(-1 - at) as usize]).unwrap()
            };
            // An allocation failure under the worker's address-space cap means the
            // decoder was asked for a picture that "would not fit in memory": the
            // property's own exclusion (normally applied by the header screen; this is
            // the backstop for sizes the screen could not foresee).  Counted, not a
            // violation; the worker is restarted after that run.
            let alloc_failure = !hung && worker_stderr.contains("memory allocation of");
            if alloc_failure {
                merged.inc("excluded_allocation_failure");
                let _ = plan;
            } else {
                found.push(FoundViolation {
                    run: at,
                    class: if hung { "hang".into() } else { "process-death".into() },
                    detail: format!("{what}; stderr: {}", worker_stderr.lines().rev().take(3).collect::<Vec<_>>().join(" | ")),
                    plan,
                });
                merged.inc("worker_deaths");
            }
            respawns += 1;
            if respawns < 64 && at >= 0 {
                let next = at as u64 + w;
                if next < total {
                    let out = dir.join(format!("w{}r{}.json", c.start, respawns));
                    still.push(spawn_worker(P::ID, o.tier, o.seed, next, w, total, &out, want_digests, t0));
                }
            }
        }
        children = still;
    }
    let wall_explore = t0.elapsed().as_secs_f64();

    // ---- cross-process determinism sample ------------------------------------
    let mut cross_checked = 0u64;
    if P::CROSS_PROCESS_RUNS > 0 && o.digests_out.is_none() {
        let n = (P::CROSS_PROCESS_RUNS * if o.tier == Tier::Thorough { 10 } else { 1 }).min(total);
        let mut groups: Vec<Vec<(i64, u64, u64)>> = Vec::new();
        let mut cross_worker_failed = false;
        for (gi, gw) in [8u64, 5u64].iter().enumerate() {
            let mut cs: Vec<Child> = (0..*gw).map(|k| spawn_worker(P::ID, o.tier, o.seed, k, *gw, n, &dir.join(format!("x{gi}_{k}.json")), true, t0)).collect();
            let mut dg = Vec::new();
            for c in cs.iter_mut() {
                let ok = c.proc.wait().map(|s| s.success()).unwrap_or(false);
                match std::fs::read(&c.out).ok().and_then(|b| serde_json::from_slice::<WorkerOut>(&b).ok()) {
                    Some(wo) if ok => dg.extend(wo.digests),
                    _ => {
                        // a worker of the re-execution died or hung: a crash is judged in the main
                        // pass (by the checks that judge crashes); here it only ends the comparison
                        cross_worker_failed = true;
                    }
                }
                let _ = std::fs::remove_file(&c.out);
            }
            dg.retain(|d| d.0 >= 0);
            dg.sort();
            groups.push(dg);
        }
        if cross_worker_failed {
            merged.add("cross_process_comparison_skipped_worker_died", 1);
            eprintln!("note: a worker of the cross-process re-execution died or hung: comparison skipped (a crash or hang is judged in the main pass)");
        } else if groups.len() == 2 && groups[0].len() == groups[1].len() {
            for (a, b) in groups[0].iter().zip(groups[1].iter()) {
                cross_checked += 1;
                if a.0 != b.0 || a.1 != b.1 {
                    harness_errors.push(format!("plan digest of run {} differs between processes: the generator is not a function of the seed", a.0));
                    break;
                }
                if a.2 != b.2 {
                    let mut rng = Rng::new(run_seed(o.seed, P::ID, a.0 as u64));
                    found.push(FoundViolation {
                        run: a.0,
                        class: format!("{}: the same plan gives different histories in different processes", P::ID),
                        detail: format!("run {}: history digest {:016x} in one process, {:016x} in another", a.0, a.2, b.2),
                        plan: serde_json::to_value(P::generate(&mut rng, o.tier)).unwrap(),
                    });
                    break;
                }
            }
        } else {
            harness_errors.push("cross-process digest lists have different lengths".into());
        }
        merged.add("cross_process_runs_compared", cross_checked);
    }

    // ---- report -------------------------------------------------------------
    let known = load_known();
    let mut by_class: BTreeMap<String, Vec<&FoundViolation>> = BTreeMap::new();
    for f in &found {
        by_class.entry(f.class.clone()).or_default().push(f);
    }
    let replay_dir = verif_dir().join("replays");
    let _ = std::fs::create_dir_all(&replay_dir);
    let mut exit = 0;
    let mut n_viol = 0;
    let mut known_hit = Vec::new();
    let mut lines = Vec::new();
    let mut minimised = 0;
    for (class, fs) in &by_class {
        if class == "HARNESS-PANIC" {
            harness_errors.push(format!("harness panic in run {}: {}", fs[0].run, fs[0].detail));
            continue;
        }
        if (class == "process-death" || class == "hang") && !P::JUDGES_CRASHES {
            // the process under a scenario of this property died or hung: a crash is C01's
            // verdict (and C14's for reader operations); here it is counted, not judged
            merged.add("crashes_not_judged_here", fs.len() as u64);
            lines.push(format!("note: {} run(s) ended in {} (e.g. run {}): counted, not judged by {} (a crash or hang is C01's verdict)", fs.len(), class, fs[0].run, P::ID));
            continue;
        }
        let first = fs.iter().min_by_key(|f| if f.run < 0 { i64::MAX + f.run } else { f.run }).unwrap();
        if let Some(k) = known.findings.iter().find(|k| k.property == P::ID && &k.class == class) {
            lines.push(format!("KNOWN-FINDING: property={} {} [class: {}; {} run(s), e.g. run {}]", P::ID, k.what, class, fs.len(), first.run));
            known_hit.push(class.clone());
            continue;
        }
        // minimise in a child process (a plan may kill the process)
        minimised += 1;
        let (min_plan, min_execs) = if minimised <= 6 && !class.contains("different processes") { minimise_in_child(P::ID, &first.plan, class, &dir) } else { (first.plan.clone(), 0) };
        let name = format!("{}-s{}-r{}-{:08x}.json", P::ID, o.seed, first.run, fnv1a(class.as_bytes()) as u32);
        let path = replay_dir.join(name);
        let file = json!({
            "property": P::ID,
            "violation": { "class": class, "detail": first.detail },
            "seed": o.seed,
            "run": first.run,
            "tier": o.tier.name(),
            "runs_with_this_class": fs.len(),
            "minimise_executions": min_execs,
            "plan": min_plan,
            "original_plan": first.plan,
        });
        let _ = std::fs::write(&path, serde_json::to_vec_pretty(&file).unwrap());
        lines.push(format!("VIOLATION property={} replay={}", P::ID, path.display()));
        lines.push(format!("  class: {class}"));
        lines.push(format!("  detail: {}", first.detail));
        n_viol += 1;
        exit = 1;
    }
    if replay_mismatches > 0 {
        harness_errors.push(format!("{replay_mismatches} of {replay_checked} re-executed runs gave another history digest (nondeterministic execution)"));
    }
    if runs_done != total && merged.get("excluded_allocation_failure") == 0 && found.iter().all(|f| f.class != "process-death" && f.class != "hang") {
        harness_errors.push(format!("only {runs_done} of {total} runs completed"));
    }

    // ---- optional extra layer (C17: Miri many-seeds, run by ./check) -----------
    let mut extra_layer = Value::Null;
    if let Ok(pth) = std::env::var("VERIF_EXTRA_LAYER_RESULT") {
        if let Some(v) = std::fs::read(&pth).ok().and_then(|b| serde_json::from_slice::<Value>(&b).ok()) {
            if v["property"].as_str() == Some(P::ID) {
                if v["ok"].as_bool() == Some(false) {
                    lines.push(format!("VIOLATION property={} replay={}", P::ID, v["log"].as_str().unwrap_or("?")));
                    lines.push(format!("  class: {}", v["class"].as_str().unwrap_or("extra layer failed")));
                    n_viol += 1;
                    exit = 1;
                }
                extra_layer = v;
            }
        }
    }

    // ---- evidence -----------------------------------------------------------
    let wall = t0.elapsed().as_secs_f64();
    let mut faults = BTreeMap::new();
    let mut probes = BTreeMap::new();
    let mut other = BTreeMap::new();
    for (k, v) in &merged.counters {
        if let Some(r) = k.strip_prefix("fault.") {
            faults.insert(r.to_string(), *v);
        } else if let Some(r) = k.strip_prefix("probe.") {
            probes.insert(r.to_string(), *v);
        } else {
            other.insert(k.clone(), *v);
        }
    }
    let mut stuck = Vec::new();
    for p in P::probe_names() {
        if !probes.contains_key(p) {
            probes.insert(p.to_string(), 0);
            stuck.push(p.to_string());
        }
    }
    let evaluations = merged.get("evaluations").max(runs_done);
    let ev = json!({
        "property_id": P::ID,
        "tier": o.tier.name(),
        "seed": o.seed,
        "level": P::LEVEL,
        "coverage": {
            "evaluations": evaluations,
            "distinct_nontrivial": merged.distinct.len(),
            "rule": P::RULE,
            "samples": merged.samples,
            "simulated_runs": runs_done,
            "sweep_runs": merged.get("sweep_runs"),
            "runs_per_hour": if wall_explore > 0.0 { (runs_done as f64 / wall_explore * 3600.0) as u64 } else { 0 },
            "seeds_per_hour": if wall_explore > 0.0 { (runs_done as f64 / wall_explore * 3600.0) as u64 } else { 0 },
            "simulated_time": { "unit": "logical steps (source reads + API calls); the code under test reads no clock", "steps": merged.get("steps") },
            "faults_fired": faults,
            "probes": probes,
            "probes_stuck_at_zero": stuck,
            "distinct_states_or_interleavings": merged.states.len(),
            "counters": other,
            "workers": w,
            "replay_checked": replay_checked,
            "replay_mismatches": replay_mismatches,
            "known_findings_hit": known_hit,
            "extra_layer": extra_layer,
            "components": {
                "real": ["h263-rs (H263Reader, picture/GOB/macroblock/block parsers, H263State, gather, idct, rle)", "h263-rs-deblock::deblock", "h263-rs-yuv::bt601::yuv420_to_rgba"],
                "stub": ["SimSource (byte source + source faults)", "picture encoder + transit faults", "plan generator / fault planner", "reference models (reader R, reference management M, reconstruction P, header pre-parser H)", "baton thread scheduler (C17)"]
            },
            "exhaustive": false
        },
        "assumptions": P::assumptions(),
        "wall_s": wall,
        "violations": n_viol
    });
    if o.write_evidence {
        let evdir = verif_dir().join("evidence");
        let _ = std::fs::create_dir_all(&evdir);
        let _ = std::fs::write(evdir.join(format!("{}.json", P::ID)), serde_json::to_vec_pretty(&ev).unwrap());
    }
    if let Some(p) = &o.digests_out {
        digests.sort();
        let mut s = String::new();
        for d in &digests {
            s.push_str(&format!("{} {:016x} {:016x}\n", d.0, d.1, d.2));
        }
        let _ = std::fs::write(p, s);
    }
    let _ = std::fs::remove_dir_all(&dir);

    for l in &lines {
        println!("{l}");
    }
    if !stuck.is_empty() && !o.quiet {
        println!("warning: probes stuck at zero: {}", stuck.join(", "));
    }
    if !o.quiet {
        println!(
            "{} {} seed={} runs={} evaluations={} distinct_nontrivial={} states={} wall={:.1}s violations={} known={}",
            P::ID,
            o.tier.name(),
            o.seed,
            runs_done,
            evaluations,
            merged.distinct.len(),
            merged.states.len(),
            wall,
            n_viol,
            by_class.len() - n_viol
        );
    }
    if !harness_errors.is_empty() {
        for e in &harness_errors {
            eprintln!("HARNESS-ERROR: {e}");
        }
        if exit == 0 {
            return 2;
        }
    }
    exit
}

fn minimise_in_child(prop: &str, plan: &Value, class: &str, dir: &Path) -> (Value, u64) {
    let inp = dir.join("min_in.json");
    let outp = dir.join("min_out.json");
    let _ = std::fs::remove_file(&outp);
    if std::fs::write(&inp, serde_json::to_vec(&json!({"plan": plan, "class": class})).unwrap()).is_err() {
        return (plan.clone(), 0);
    }
    let exe = std::env::current_exe().expect("current_exe");
    let child = Command::new(exe).arg("minimise").arg(prop).arg(&inp).arg(&outp).stdin(Stdio::null()).stdout(Stdio::null()).spawn();
    if let Ok(mut ch) = child {
        let t0 = Instant::now();
        loop {
            match ch.try_wait() {
                Ok(Some(_)) => break,
                Ok(None) => {
                    if t0.elapsed() > Duration::from_secs(60) {
                        let _ = ch.kill();
                        let _ = ch.wait();
                        break;
                    }
                    std::thread::sleep(Duration::from_millis(20));
                }
                Err(_) => break,
            }
        }
    }
    if let Some(v) = std::fs::read(&outp).ok().and_then(|b| serde_json::from_slice::<Value>(&b).ok()) {
        // confirm in a fresh process that the minimised plan fails the same way
        let execs = v["execs"].as_u64().unwrap_or(0);
        let cand = v["plan"].clone();
        if confirm_in_child(prop, &cand, class, dir) {
            return (cand, execs);
        }
    }
    (plan.clone(), 0)
}

/// Re-run a plan in a fresh process; true iff it fails with `class`.
pub fn confirm_in_child(prop: &str, plan: &Value, class: &str, dir: &Path) -> bool {
    let f = dir.join("confirm.json");
    if std::fs::write(&f, serde_json::to_vec(&json!({"property": prop, "violation": {"class": class}, "plan": plan})).unwrap()).is_err() {
        return false;
    }
    let exe = std::env::current_exe().expect("current_exe");
    match Command::new(exe).arg("replay").arg(&f).stdin(Stdio::null()).stdout(Stdio::null()).stderr(Stdio::null()).status() {
        Ok(s) => s.code() == Some(1),
        Err(_) => false,
    }
}

pub fn minimise_cmd<P: Property>(inp: &Path, outp: &Path) -> i32 {
    limit_address_space();
    let v: Value = match std::fs::read(inp).ok().and_then(|b| serde_json::from_slice(&b).ok()) {
        Some(v) => v,
        None => return 2,
    };
    let class = v["class"].as_str().unwrap_or("").to_string();
    let (plan, execs) = minimise::<P>(&v["plan"], &class, 3000, Duration::from_secs(30));
    let _ = std::fs::write(outp, serde_json::to_vec(&json!({"plan": plan, "execs": execs})).unwrap());
    0
}

/// `replay <file>`: exit 1 (+ VIOLATION line) iff the recorded class reproduces.
pub fn replay_cmd<P: Property>(file: &Path, v: &Value) -> i32 {
    limit_address_space();
    let class = v["violation"]["class"].as_str().unwrap_or("").to_string();
    if class.contains("different processes") {
        // The violation is a difference between two PROCESSES that executed the same
        // runs in another partition (8 and 5 workers): re-execute, in two fresh
        // processes, exactly the runs those two workers executed up to this run.
        let run = v["run"].as_i64().unwrap_or(0).max(0) as u64;
        let seed = v["seed"].as_u64().unwrap_or(1);
        let tier = if v["tier"].as_str() == Some("thorough") { Tier::Thorough } else { Tier::Quick };
        let dir = std::env::temp_dir().join(format!("h263-sim-replay-{}", std::process::id()));
        let _ = std::fs::create_dir_all(&dir);
        let t0 = Instant::now();
        let mut dg = Vec::new();
        for (gi, gw) in [8u64, 5u64].iter().enumerate() {
            let mut c = spawn_worker(P::ID, tier, seed, run % *gw, *gw, run + 1, &dir.join(format!("x{gi}.json")), true, t0);
            let ok = c.proc.wait().map(|s| s.success()).unwrap_or(false);
            let wo = std::fs::read(&c.out).ok().and_then(|b| serde_json::from_slice::<WorkerOut>(&b).ok());
            let _ = std::fs::remove_file(&c.out);
            match wo {
                Some(wo) if ok => dg.push(wo.digests.iter().find(|d| d.0 == run as i64).map(|d| d.2)),
                _ => {
                    eprintln!("replay: a worker process failed");
                    let _ = std::fs::remove_dir_all(&dir);
                    return 2;
                }
            }
        }
        let _ = std::fs::remove_dir_all(&dir);
        return match (dg[0], dg[1]) {
            (Some(a), Some(b)) if a != b => {
                println!("replay: class: {class}");
                println!("replay: detail: run {run}: history digest {a:016x} as the last run of worker {} of 8, {b:016x} as the last run of worker {} of 5", run % 8, run % 5);
                println!("VIOLATION property={} replay={}", P::ID, file.display());
                1
            }
            (Some(_), Some(_)) => {
                println!("replay: no violation (recorded class: {class})");
                0
            }
            _ => {
                eprintln!("replay: the run was not executed");
                2
            }
        };
    }
    match exec_value::<P>(&v["plan"]) {
        Err(e) => {
            eprintln!("replay: {e}");
            2
        }
        Ok(None) => {
            println!("replay: no violation (recorded class: {class})");
            0
        }
        Ok(Some(got)) => {
            println!("replay: class: {}", got.class);
            println!("replay: detail: {}", got.detail);
            if got.class == class || class.is_empty() {
                println!("VIOLATION property={} replay={}", P::ID, file.display());
                1
            } else {
                println!("replay: a different class than recorded ({class})");
                println!("VIOLATION property={} replay={}", P::ID, file.display());
                1
            }
        }
    }
}
