//! Counters the executor maintains; they become the evidence file.

use serde::{Deserialize, Serialize};
use serde_json::Value;
use std::collections::{BTreeMap, HashSet};

#[derive(Default, Serialize, Deserialize)]
pub struct Stats {
    /// Named counters: calls, outcome classes, `fault.<kind>.fired`, `probe.<name>` ...
    pub counters: BTreeMap<String, u64>,
    /// Digests of distinct non-trivial cases (rule is per property).
    pub distinct: HashSet<u64>,
    /// Digests of distinct abstract states / interleavings.
    pub states: HashSet<u64>,
    /// A few full sample cases.
    pub samples: Vec<Value>,
    /// Per-run history digest (reset by the worker before each run).
    #[serde(skip)]
    pub hist: u64,
}

impl Stats {
    #[inline]
    pub fn inc(&mut self, k: &str) {
        self.add(k, 1);
    }
    pub fn add(&mut self, k: &str, n: u64) {
        if let Some(v) = self.counters.get_mut(k) {
            *v += n;
        } else {
            self.counters.insert(k.to_string(), n);
        }
    }
    pub fn get(&self, k: &str) -> u64 {
        self.counters.get(k).copied().unwrap_or(0)
    }
    /// Mix a value into the per-run history digest.
    #[inline]
    pub fn h(&mut self, x: u64) {
        self.hist = (self.hist ^ x).wrapping_mul(0x0000_0100_0000_01B3).rotate_left(17);
    }
    pub fn hs(&mut self, s: &str) {
        self.h(crate::rng::fnv1a(s.as_bytes()));
    }
    pub fn merge(&mut self, o: Stats) {
        for (k, v) in o.counters {
            self.add(&k, v);
        }
        self.distinct.extend(o.distinct);
        self.states.extend(o.states);
        for s in o.samples {
            if s.get("full_plan_of_run_0").is_some() {
                self.samples.insert(0, s);
            } else if self.samples.len() < 6 {
                self.samples.push(s);
            }
        }
    }
    pub fn sample(&mut self, v: impl FnOnce() -> Value) {
        if self.samples.len() < 2 {
            self.samples.push(v());
        }
    }
}
