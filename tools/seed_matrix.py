#!/usr/bin/env python3
"""Runs every seeded change in /verif/seeded against all eight checks (quick) via
tools/try_seed.sh and records the outcome in seeded/<id>/meta.json (results, caught_by)."""
import json, glob, os, re, subprocess, sys
V = os.path.dirname(os.path.dirname(os.path.abspath(__file__)))
want = sys.argv[1:]
for d in sorted(glob.glob(V + '/seeded/*/')):
    sid = os.path.basename(d.rstrip('/'))
    if want and sid not in want: continue
    props = os.environ.get('MATRIX_PROPS', '').split()   # e.g. "C17": re-run only these checks, keep the other results
    r = subprocess.run([V + '/tools/try_seed.sh', d + 'patch.diff', 'quick'] + props, capture_output=True, text=True)
    res = {}
    for l in r.stdout.splitlines():
        m = re.match(r'(C\d\d): (CAUGHT|missed|harness error)(.*)', l)
        if m: res[m.group(1)] = {'result': m.group(2), 'class': m.group(3).replace('class:', '').strip()}
    mp = d + 'meta.json'
    meta = json.load(open(mp)) if os.path.exists(mp) else {'id': sid}
    if props and 'results' in meta:
        merged = dict(meta['results']); merged.update(res); res = dict(sorted(merged.items()))
    meta['results'] = res
    meta['caught_by'] = [k for k, v in res.items() if v['result'] == 'CAUGHT']
    meta['checks_run'] = 'tools/try_seed.sh <patch> quick (scratch worktree of /repo + VERIF_REPO; all eight claimed checks, quick tier, VERIF_SEED=1)'
    json.dump(meta, open(mp, 'w'), indent=1)
    print(sid, meta['caught_by'], flush=True)
