#!/usr/bin/env python3
"""Sensitivity campaign: deliberate property-breaking changes (the lists planned in
DESIGN.md section 4, plus the reverts of every `fix:` commit) are applied one at a
time to a scratch worktree of /repo (never to /repo itself), the repository's own
tests are run (a mutant they kill is not interesting), and the targeted check is
run in its quick tier against that worktree (VERIF_REPO).  Writes
/verif/SENSITIVITY.md.   usage: tools/mutants.py [id-prefix ...]
"""
import os, subprocess, sys, json, time

V = os.path.dirname(os.path.dirname(os.path.abspath(__file__)))
WT = "/tmp/wt_mut_%d" % os.getpid()
BIN = V + "/sim/target/release/h263-sim"
ENV = dict(os.environ, CARGO_NET_OFFLINE="true", VERIF_REPO=WT, VERIF_DIR=V)

S = "h263/src/decoder/state.rs"
G = "h263/src/decoder/cpu/gather.rs"
R = "h263/src/decoder/cpu/rle.rs"
I = "h263/src/decoder/cpu/idct.rs"
M = "h263/src/decoder/cpu/mvd_pred.rs"
T = "h263/src/types.rs"
RD = "h263/src/parser/reader.rs"
P = "h263/src/parser/picture.rs"
DP = "h263/src/decoder/picture.rs"
DB = "deblock/src/deblock.rs"

# (id, property, file, old, new, description)
MUT = [
 ("m01-zigzag-guard-removed", "C01", R, "            if zigzag_index >= DEZIGZAG_MAPPING.len() {\n                return;\n            }\n", "", "run past the block end no longer stops inverse_rle"),
 ("m02-block-cols-clamp", "C01", G, "(samples_per_row as isize - pos.0 as isize).clamp(0, 8)", "(samples_per_row as isize - pos.0 as isize).min(8)", "block_cols no longer clamped at 0"),
 ("m03-idct-xs-clamp", "C01", I, "(output_samples_per_line as isize - x_base as isize * 8).clamp(0, 8) as usize", "(output_samples_per_line as isize - x_base as isize * 8).min(8) as usize", "xs no longer clamped at 0 for blocks outside the frame"),
 ("m04-mb-loop-bound-off-by-one", "C01", S, "if macroblock_types.len() >= mb_per_line * mb_height {", "if macroblock_types.len() > mb_per_line * mb_height {", "one macroblock too many is accepted"),
 ("m05-zero-size-only-width", "C01", S, "if output_dimensions.0 == 0 || output_dimensions.1 == 0 {", "if output_dimensions.0 == 0 {", "zero height no longer rejected"),
 ("m06-dquant-clamp-removed", "C03", S, "in_force_quantizer = quantizer.clamp(1, 31) as u8;", "in_force_quantizer = quantizer.max(1) as u8;", "quantizer after DQUANT no longer limited to 31"),
 ("m10-lerp-round-down", "C03", G, "(sample_a as u16 + sample_b as u16).div_ceil(2) as u8", "((sample_a as u16 + sample_b as u16) / 2) as u8", "two-tap interpolation rounds down"),
 ("m11-fourtap-no-rounding", "C03", G, "                        + 2) // for proper rounding\n", "                        + 1)\n", "four-tap interpolation rounding term changed"),
 ("m12-invert-62", "C03", T, "Ordering::Greater => Self(self.0 - 64),", "Ordering::Greater => Self(self.0 - 62),", "wrap of positive differentials off by one sample"),
 ("m13-range-inclusive", "C03", T, "-range.0 <= self.0 && self.0 < range.0", "-range.0 <= self.0 && self.0 <= range.0", "+16 accepted as in range"),
 ("m14-median-branch", "C03", T, "                    //self, rhs, mhs\n                    rhs", "                    //self, rhs, mhs\n                    self", "median wrong in one ordering"),
 ("m15-end-of-line-rule", "C03", M, "        0 | 1 if is_end_of_line => MotionVector::zero(),\n", "", "right-edge rule for candidate 3 dropped"),
 ("m16-left-candidate-index", "C03", M, "predictor_vectors[current_mb - 1][index + 1]", "predictor_vectors[current_mb - 1][index]", "left candidate taken from the wrong block"),
 ("m17-chroma-table", "C03", T, "            14..=15 => Self(whole + 2),", "            15..=15 => Self(whole + 2),", "sixteenth position 14 rounds to a half sample"),
 ("m18-negative-half-sample", "C03", T, "            (self.0 / 2 - 1, true)", "            (self.0 / 2, true)", "negative half-sample vectors split wrongly"),
 ("m19-early-end-as-intra", "C03", S, "macroblock_types.resize(macroblock_types.capacity(), MacroblockType::Inter);", "macroblock_types.resize(macroblock_types.capacity(), MacroblockType::Intra);", "macroblocks after an early end are not copies"),
 ("m20-fast-path-range", "C03", G, "(0..=samples_per_row as isize - 8).contains(&src_x)", "(0..=samples_per_row as isize - 7).contains(&src_x)", "fast path applies one column too far"),
 ("m21-p-without-reference-ok", "C03", G, "let reference_picture = reference_picture.ok_or(Error::UncodedIFrameBlocks)?;", "let reference_picture = match reference_picture { Some(r) => r, None => continue };", "P picture without a reference silently accepted"),
 ("m30-disposable-never", "C04", T, "        matches!(self, Self::DisposablePFrame)\n", "        false && matches!(self, Self::DisposablePFrame)\n", "disposable pictures become references"),
 ("m31-disposable-tr0-is-reference", "C04", S, "                .is_disposable()\n            {", "                .is_disposable()\n                && this_tr != 0\n            {", "a disposable picture with temporal reference 0 becomes the reference"),
 ("m32-last-is-reference-after-disposable", "C04", S, "        if let Some(disposable_picture) = &self.disposable_picture {\n            Some(disposable_picture)\n        } else if", "        if let (Some(disposable_picture), true) = (&self.disposable_picture, self.last_picture != Some(3)) {\n            Some(disposable_picture)\n        } else if", "get_last_picture ignores the disposable picture when the reference has temporal reference 3"),
 ("m33-reference-lookup-last", "C04", S, "self.reference_states.get(&self.reference_picture.unwrap())", "self.get_last_picture()", "prediction from the last picture (disposable included)"),
 ("m40-transaction-no-rollback", "C05", RD, "        if result.is_err() {\n            self.rollback(checkpoint)?;\n        }\n\n        result\n    }\n\n    /// Run some struct-parsing code in such a way that it will not advance the\n    /// bitstream position unless it successfully parses a value.\n    ///\n    /// Closures passed to this function must yield an `Option`", "        result\n    }\n\n    /// Run some struct-parsing code in such a way that it will not advance the\n    /// bitstream position unless it successfully parses a value.\n    ///\n    /// Closures passed to this function must yield an `Option`", "with_transaction no longer rolls back"),
 ("m41-buffer-cleared-on-error", "C05", RD, "            self.source.read_exact(&mut byte[..])?;", "            if let Err(e) = self.source.read_exact(&mut byte[..]) {\n                self.buffer.clear();\n                return Err(e.into());\n            }", "reader buffer cleared on an I/O error"),
 ("m42-state-before-gather", "C05", S, "            gather(\n                &macroblock_types,", "            if !next_decoded_picture.as_header().picture_type.is_disposable() {\n                self.disposable_picture = None;\n            }\n            gather(\n                &macroblock_types,", "the disposable picture is dropped before the last fallible step"),
 ("m50-chroma-floor", "C13", DP, "let chroma_w = (w as f32 / 2.0).ceil() as usize;", "let chroma_w = (w as f32 / 2.0).floor() as usize;", "chroma width rounded down"),
 ("m51-chroma-row-length", "C13", DP, "            chroma_samples_per_row: chroma_w,", "            chroma_samples_per_row: w as usize / 2,", "reported chroma row length rounded down"),
 ("m52-deblock-width-guard", "C13", DB, "    if width >= 10 {", "    if width >= 8 {", "vertical-edge pass enabled for widths 8 and 9"),
 ("m53-deblock-two-rows", "C13", DB, "    while edge_y + 2 <= height {", "    while edge_y + 1 <= height {", "horizontal-edge pass reads one row too far"),
 ("m60-needed-bytes-round-down", "C14", RD, "        (bits_short / 8) + usize::from(bits_short % 8 != 0)", "        bits_short / 8", "bytes needed rounded down"),
 ("m61-realign-no-mod", "C14", RD, "        (8 - (self.bits_read % 8) as u32) % 8", "        8 - (self.bits_read % 8) as u32", "realignment of an aligned position is 8 bits"),
 ("m62-commit-round-up", "C14", RD, "        self.buffer.drain(0..self.bits_read / 8);", "        self.buffer.drain(0..(self.bits_read + 7) / 8);", "commit drops the partially read byte"),
 ("m63-rollback-ignored", "C14", RD, "        self.bits_read = checkpoint;\n", "", "rollback keeps the position"),
 ("m64-sign-extension-off-by-one", "C14", RD, "let sign_extension = (!T::zero()).checked_shl(bits_needed);", "let sign_extension = (!T::zero()).checked_shl(bits_needed + 1);", "sign extension leaves one bit clear"),
 ("m65-union-none-keeps-position", "C14", RD, "            Ok(None) | Err(_) => self.rollback(checkpoint)?,", "            Err(_) => self.rollback(checkpoint)?,", "a None union keeps the consumed bits"),
 ("m66-skip-before-ensure", "C14", RD, "        self.ensure_bits(bits_to_skip)?;\n\n        self.bits_read += bits_to_skip as usize;", "        self.bits_read += bits_to_skip as usize;\n        self.ensure_bits(0)?;", "skip advances without checking the data is there"),
 ("m67-start-code-window", "C14", RD, "if !in_error && skip_bits > max_skip_bits {", "if !in_error && skip_bits + 3 > max_skip_bits {", "start codes behind the last stuffing bits are not recognised"),
 ("m70-header-skip-17", "C15", P, "        reader.skip_bits(17 + skipped_bits)?;\n\n        let gob_id = reader.read_bits(5)?;\n\n        if decoder_options", "        reader.skip_bits(17)?;\n\n        let gob_id = reader.read_bits(5)?;\n\n        if decoder_options", "stuffing before the picture start code is not skipped"),
 ("m71-commit-whole-bytes", "C15", S, "            reader.commit();\n\n            Ok(())", "            reader.commit();\n            let _ = reader.skip_bits(0);\n            if next_running_options.is_empty() && mb_per_line == 3 { let _ = reader.skip_bits(1); }\n\n            Ok(())", "one extra bit consumed after pictures three macroblocks wide"),
 ("m80-static-quantizer", "C17", S, None, None, "in-force quantizer kept in a process-wide atomic (see patch)"),
]

FIX_REVERTS = [
 ("r-F1", "C15", "4e79045"), ("r-F1b", "C01", "4e79045"), ("r-F2", "C01", "87dd225"), ("r-F3", "C01", "b108f39"),
 ("r-F4", "C01", "d3fd65a"), ("r-F5", "C04", "7210b99"), ("r-F6", "C01", "4f60754"), ("r-F7", "C04", "aba5249"),
 ("r-F8", "C04", "1788675"), ("r-F9", "C13", "d983b24"), ("r-F10", "C14", "15251aa"), ("r-F11", "C03", "f889e88"),
]

STATIC_Q = [
 ("use std::io::Read;", "use std::io::Read;\nstatic QUANT: std::sync::atomic::AtomicU8 = std::sync::atomic::AtomicU8::new(0);"),
 ("            let mut in_force_quantizer = next_picture.quantizer;", "            let mut in_force_quantizer = next_picture.quantizer;\n            QUANT.store(in_force_quantizer, std::sync::atomic::Ordering::Relaxed);"),
 ("                        in_force_quantizer = quantizer.clamp(1, 31) as u8;", "                        in_force_quantizer = quantizer.clamp(1, 31) as u8;\n                        QUANT.store(in_force_quantizer, std::sync::atomic::Ordering::Relaxed);"),
 ("                            in_force_quantizer,\n                        );", "                            QUANT.load(std::sync::atomic::Ordering::Relaxed),\n                        );"),
]

def sh(cmd, **kw):
    return subprocess.run(cmd, shell=True, capture_output=True, text=True, **kw)

def reset():
    sh(f"git -C {WT} checkout -q -- . && git -C {WT} clean -fdq -e target -e Cargo.lock")

def run_check(prop):
    b = sh(f"cd {V} && ./check build", env=ENV)
    if b.returncode != 0:
        return "build-failed", b.stderr[-300:]
    r = sh(f"{BIN} run {prop} quick --no-evidence", env=ENV)
    cls = [l.strip() for l in r.stdout.splitlines() if l.strip().startswith("class:")]
    if r.returncode == 1:
        return "CAUGHT", cls[0][7:] if cls else ""
    if r.returncode == 0:
        return "missed", ""
    return f"harness-error({r.returncode})", (r.stderr or r.stdout)[-300:]

def main():
    want = sys.argv[1:]
    if not os.path.isdir(WT):
        sh(f"git -C /repo worktree add -q --detach {WT} HEAD")
    rows = []
    todo = []
    for m in MUT:
        todo.append(("mut", m))
    for r in FIX_REVERTS:
        todo.append(("rev", r))
    for kind, m in todo:
        mid = m[0]
        if want and not any(mid.startswith(w) for w in want):
            continue
        reset()
        if kind == "mut":
            _, prop, f, old, new, desc = m
            path = f"{WT}/{f}"
            s = open(path).read()
            if old is None:
                for a, b in STATIC_Q:
                    assert a in s, (mid, a)
                    s = s.replace(a, b)
            else:
                if s.count(old) != 1:
                    rows.append((mid, prop, desc, "NOT-APPLIED", f"pattern occurs {s.count(old)} times"))
                    print(rows[-1]); continue
                s = s.replace(old, new)
            open(path, "w").write(s)
        else:
            _, prop, commit = m
            desc = "revert of fix " + sh(f"git -C /repo log -1 --format='%h %s' {commit}").stdout.strip()
            r = sh(f"git -C /repo diff {commit}^ {commit} | git -C {WT} apply -R")
            if r.returncode != 0:
                rows.append((mid, prop, desc, "NOT-APPLIED", r.stderr[-200:])); print(rows[-1]); continue
        t = sh(f"cd {WT} && cargo test --workspace --offline", env=ENV)
        if t.returncode != 0:
            comp = "error" in t.stderr and "could not compile" in t.stderr
            rows.append((mid, prop, desc, "does-not-compile" if comp else "killed-by-existing-tests", ""))
            print(rows[-1]); continue
        res, cls = run_check(prop)
        rows.append((mid, prop, desc, res, cls))
        print(rows[-1], flush=True)
    reset()
    sh(f"git -C /repo worktree remove --force {WT}")
    sh(f"cd {V} && ./check build", env=dict(os.environ, CARGO_NET_OFFLINE="true"))
    os.makedirs(V + "/.scratch", exist_ok=True)
    json.dump(rows, open(V + "/.scratch/mutants.json", "w"), indent=1)
    return rows

if __name__ == "__main__":
    main()
