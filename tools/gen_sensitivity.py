#!/usr/bin/env python3
"""Writes /verif/SENSITIVITY.md from sensitivity/mutants.json (tools/mutants.py) and seeded/*/meta.json."""
import json, glob, os
V = os.path.dirname(os.path.dirname(os.path.abspath(__file__)))
rows = json.load(open(V + '/sensitivity/mutants.json'))
notes = {
 'm02-block-cols-clamp': 'equivalent: a negative count makes the same empty range as 0',
 'm05-zero-size-only-width': 'equivalent for C01 since the macroblock loop is bounded: a zero-height picture has no macroblock and nothing divides by the height',
 'm52-deblock-width-guard': 'not reached through decoded pictures as a panic or size error (C09/C16 territory, not claimed)',
 'r-F7': 'equivalent since the F8 repair: last_picture now names the last NON-disposable picture, i.e. the reference; before that repair the C04 check found it (findings/F7-...)',
 'm42-state-before-gather': 'rejected by the borrow checker (the reference is borrowed across gather); the same idea is covered by seeded changes C04-1 and C05-1',
}
metas = [json.load(open(f)) for f in sorted(glob.glob(V + '/seeded/*/meta.json'), key=lambda f: (os.path.basename(os.path.dirname(f)).split('-')[0], int(os.path.basename(os.path.dirname(f)).split('-')[1])))]
n_first_missed = sum(1 for m in metas if 'MISSED' in m.get('history', ''))
out = ["# SENSITIVITY — do the checks notice when a property is broken?\n",
"Both directions are recorded here: the pristine tree stays silent (section 3), and deliberate",
"property-breaking changes are reported within the *quick* budget (sections 1 and 2).\n",
"## 1. Seeded changes written by independent sub-agents\n",
f"{len(metas)} changes, written in nine rounds by sub-agents that never saw `/verif`: rounds 1, 2, 5, 7, 8 and 9 were given only the text",
"of one or two properties and a scratch worktree of `/repo`; rounds 2 and 3 were additionally told which ideas had already",
"been used and asked for changes needing two or more coinciding conditions; the *wildcard* rounds were given the eight",
"claimed property texts plus a prose description of what the harness generates and asked for changes such a harness is",
"unlikely to hit; round 7 (24 changes, after the final campaign of the earlier ones) asked eight fresh sub-agents for three changes each in three different anchored mechanisms, round 8 (24 more) for changes that need two or more coinciding conditions; round 9 (16 changes) was a held-out round against the finished checks: 15 of its 16 changes were caught by their target check as they arrived.  Every change was confirmed independently (`tools/verify_seed.sh`: compiles, the 34 existing tests pass,",
"its demonstration passes on the clean tree and fails with the change) and then run against all eight checks",
"(`tools/try_seed.sh` / `tools/seed_matrix.py`, quick tier, scratch worktree).  Files: `seeded/<id>/{patch.diff,demo.rs,NOTES.md,meta.json}`.\n",
"| id | breaks | what it needs to manifest | caught by | first run |", "|---|---|---|---|---|"]
for m in metas:
    tgt = m.get('breaks_property')
    first = 'MISSED, check strengthened (see meta.json)' if 'MISSED' in m.get('history', '') else 'caught'
    mark = '' if tgt in m.get('caught_by', []) else ' **(target check does not catch it)**'
    out.append(f"| {m['id']} | {tgt} | {m['needs_to_manifest']} | {', '.join(m.get('caught_by', [])) or 'NONE'}{mark} | {first} |")
uncaught = [m for m in metas if m.get('breaks_property') not in m.get('caught_by', [])]
out += ["", f"{len(metas) - len(uncaught)} of the {len(metas)} are caught by the check of the property they target.  {n_first_missed} of them were MISSED by every check (or by the",
"target check) when first tried and led to stronger generators or oracles; what was changed is recorded in each `meta.json`",
"(`history`) and summarised in DESIGN.md 9.2.  A check other than the target's appears in `caught by` only where that",
"property is violated too (e.g. a lost reference makes a valid predicted picture undecodable: C03 and C04).\n"]
if uncaught:
    out += [f"**Not caught ({len(uncaught)}), left that way on purpose** (each lies outside the statement or quantifier of the property it was filed under; where another check reports it, that is said):\n"]
    for m in uncaught:
        out.append(f"* {m['id']}: {m.get('not_covered', 'see meta.json')}")
    out.append("")
out += [
"## 2. Planned mutants (DESIGN.md section 4) and reverts of every `fix:` commit\n",
"`tools/mutants.py` applies each change to a scratch worktree (never to `/repo`), runs the repository's own tests and,",
"if they still pass, the targeted check in its quick tier (`VERIF_REPO=<worktree>`).\n",
"| id | target | change | result | violation class / note |", "|---|---|---|---|---|"]
for mid, prop, desc, res, cls in rows:
    out.append(f"| {mid} | {prop} | {desc} | {res} | {cls.replace('|','/') or notes.get(mid,'')} {('— ' + notes[mid]) if (mid in notes and cls) else ''} |")
caught = sum(1 for r in rows if r[3]=='CAUGHT'); killed = sum(1 for r in rows if r[3].startswith('killed')); missed=[r[0] for r in rows if r[3]=='missed']
out += ["", f"Summary: {caught} caught, {killed} already killed by the repository's own tests, {len(missed)} not reported ({', '.join(missed)}) — each of those is explained in the table (equivalent change, or outside the claimed properties).\n",
"## 3. Silence on the pristine tree\n",
"`sensitivity/silence.txt` (produced by `tools/silence.sh` with the final checks): every check over 60 different `VERIF_SEED` values",
"(400..459, a tenth of the quick budget each) on the unchanged tree: no VIOLATION line, exit 0 every time; the thorough tier of all",
"eight checks at seeds 91 and 101 (101: every check at the final commit): silent (C17 including its Miri layer, 24 executions each); the full quick budget at seeds 2..9: silent.  Earlier versions of the checks were run the same way",
"over seeds 100..199, 200..299 and 300..399 (100 seeds each, all silent), and the thorough tier over seeds 7, 11, 21, 31, 41, 51, 71, 81",
"(the only alarm ever was the C05 false alarm of DESIGN.md 7 correction 7, at seed 21, corrected since).",
"`sensitivity/determinism.txt` (`tools/determinism.sh 512`): plan digests and history digests identical across six executions per",
"property at worker counts 1, 4, 16, 16, 4, 1.\n"]
open(V + '/SENSITIVITY.md','w').write("\n".join(out))
print("written", caught, killed, missed)
