#!/usr/bin/env python3
"""Writes /verif/SENSITIVITY.md from sensitivity/mutants.json (tools/mutants.py) and seeded/*/meta.json."""
import json, glob, os
V = os.path.dirname(os.path.dirname(os.path.abspath(__file__)))
rows = json.load(open(V + '/sensitivity/mutants.json'))
notes = {
 'm02-block-cols-clamp': 'equivalent: a negative count makes the same empty range as 0',
 'm05-zero-size-only-width': 'equivalent for C01 since the macroblock loop is bounded: a zero-height picture has no macroblock and nothing divides by the height',
 'm52-deblock-width-guard': 'not reached through decoded pictures as a panic or size error (C09/C16 territory, not claimed)',
 'r-F7': 'equivalent since the F8 repair: last_picture now names the last NON-disposable picture, i.e. the reference; before that repair the C04 check found it (findings/F7-...)',
 'm42-state-before-gather': 'rejected by the borrow checker (the reference is borrowed across gather); the same idea is covered by seeded changes C04-1 and C05-1',
}
out = ["# SENSITIVITY — do the checks notice when a property is broken?\n",
"Both directions are recorded here: the pristine tree stays silent (see the last section), and deliberate",
"property-breaking changes are reported within the *quick* budget.\n",
"## 1. Seeded changes written by independent sub-agents\n",
"Each sub-agent got only the text of one property and its own scratch worktree of `/repo` (nothing from `/verif`).",
"Every change below was confirmed independently (`tools/verify_seed.sh`: compiles, the 34 existing tests pass,",
"its demonstration passes on the clean tree and fails with the change) and then run against all eight checks",
"(`tools/try_seed.sh`, quick tier).  Files: `seeded/<id>/{patch.diff,demo.rs,NOTES.md,meta.json}`.\n",
"| id | breaks | what it needs to manifest | caught by |", "|---|---|---|---|"]
for f in sorted(glob.glob(V + '/seeded/*/meta.json')):
    m = json.load(open(f))
    out.append(f"| {m['id']} | {m['breaks_property']} | {m['needs_to_manifest']} | {', '.join(m['caught_by']) or 'NONE'}{' (after strengthening, see meta.json)' if 'history' in m else ''} |")
out += ["", "All 24 are caught by the check of the property they target. Two were first MISSED by every check and led to",
"stronger checks (recorded in `meta.json` `history`): C04-3 (a `?` in the harness swallowed \"Ok but no picture\") and",
"C17-2 (instances never shared header fields unless they were exact replicas; C17 worlds now contain content-only siblings).\n",
"## 2. Planned mutants (DESIGN.md section 4) and reverts of every `fix:` commit\n",
"`tools/mutants.py` applies each change to a scratch worktree (never to `/repo`), runs the repository's own tests and,",
"if they still pass, the targeted check in its quick tier (`VERIF_REPO=<worktree>`).\n",
"| id | target | change | result | violation class / note |", "|---|---|---|---|---|"]
for mid, prop, desc, res, cls in rows:
    out.append(f"| {mid} | {prop} | {desc} | {res} | {cls.replace('|','/') or notes.get(mid,'')} {('— ' + notes[mid]) if (mid in notes and cls) else ''} |")
caught = sum(1 for r in rows if r[3]=='CAUGHT'); killed = sum(1 for r in rows if r[3].startswith('killed')); missed=[r[0] for r in rows if r[3]=='missed']
out += ["", f"Summary: {caught} caught, {killed} already killed by the repository's own tests, {len(missed)} not reported ({', '.join(missed)}) — each of those is explained in the table (equivalent change, or outside the claimed properties).\n",
"## 3. Silence on the pristine tree\n",
"See `sensitivity/silence.txt`: every check, quick tier, over 100 different `VERIF_SEED` values on the unchanged tree: no VIOLATION line, exit 0 every time.",
"`tools/determinism.sh` additionally shows that plan digests and history digests are identical across repeated executions and worker counts 1/4/16.\n"]
open(V + '/SENSITIVITY.md','w').write("\n".join(out))
print("written", caught, killed, missed)
