#!/usr/bin/env python3
"""Prints the table of DESIGN.md 9.3 from the evidence files (quick tier) and an optional log of thorough runs."""
import json, os, sys
V = os.path.dirname(os.path.dirname(os.path.abspath(__file__)))
print("| check | seeded runs (+sweeps) | evaluations | distinct non-trivial | states / interleavings | wall |")
print("|---|---|---|---|---|---|")
for p in ['C01','C03','C04','C05','C13','C14','C15','C17']:
    e = json.load(open(f"{V}/evidence/{p}.json")); c = e['coverage']
    print(f"| {p} | {c['simulated_runs']} (+{c['sweep_runs']}) | {c['evaluations']} | {c['distinct_nontrivial']} | {c['distinct_states_or_interleavings']} | {e['wall_s']:.1f} s |")
