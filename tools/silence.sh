#!/bin/sh
# Zero-alarm evidence: every check on the unchanged tree over many VERIF_SEED
# values (each with a tenth of the quick budget).  usage: tools/silence.sh [from] [to]
HERE="$(cd "$(dirname "$0")/.." && pwd)"
BIN="$HERE/sim/target/release/h263-sim"
FROM="${1:-100}"; TO="${2:-199}"
"$HERE/check" build || exit 2
OUT="$HERE/sensitivity/silence.txt"
mkdir -p "$HERE/sensitivity" "$HERE/.scratch"
echo "# unchanged tree ($(git -C "${VERIF_REPO:-/repo}" rev-parse --short HEAD)), verif $(git -C "$HERE" rev-parse --short HEAD), seeds $FROM..$TO, one tenth of the quick budget per seed" >"$OUT"
bad=0
for P in C01 C03 C04 C05 C13 C14 C15 C17; do
    case $P in C01) N=12000;; C03) N=4000;; C04) N=6000;; C05) N=600;; C13) N=6000;; C14) N=30000;; C15) N=10000;; C17) N=3000;; esac
    ok=0; viol=0; err=0
    s=$FROM
    while [ "$s" -le "$TO" ]; do
        VERIF_DIR="$HERE" VERIF_SEED=$s "$BIN" run $P quick --runs $N --no-evidence --quiet >"$HERE/.scratch/silence.out" 2>&1
        rc=$?
        if [ $rc -eq 0 ]; then ok=$((ok+1)); elif [ $rc -eq 1 ]; then viol=$((viol+1)); echo "$P seed $s: VIOLATION"; cat "$HERE/.scratch/silence.out"; else err=$((err+1)); echo "$P seed $s: harness error"; cat "$HERE/.scratch/silence.out"; fi
        s=$((s+1))
    done
    echo "$P: $ok seeds silent, $viol with a VIOLATION, $err harness errors ($N runs each)" | tee -a "$OUT"
    [ $viol -ne 0 ] || [ $err -ne 0 ] && bad=1
done
exit $bad
