#!/bin/sh
# usage: tools/verify_seed.sh <worktree> <seed dir> [demo destination relative to worktree]
# Confirms a seeded change independently: patch applies; existing tests pass with
# it; the demo passes on the clean tree and fails with the patch.
WT="$1"; SD="$2"; DEST="${3:-h263/tests/demo.rs}"
export CARGO_NET_OFFLINE=true
cd "$WT" || exit 2
git checkout -q -- . ; rm -f "$DEST"
git apply --check "$SD/patch.diff" || { echo "RESULT patch does not apply"; exit 1; }
mkdir -p "$(dirname "$DEST")"
# extra dev-dependencies requested by the demo?
if [ -f "$SD/dev-deps.toml" ]; then cat "$SD/dev-deps.toml" >> h263/Cargo.toml; fi
cp "$SD/demo.rs" "$DEST"
T=$(basename "$DEST" .rs); PKG=$(echo "$DEST" | cut -d/ -f1)
case "$PKG" in h263) PKGN=h263-rs;; deblock) PKGN=h263-rs-deblock;; yuv) PKGN=h263-rs-yuv;; esac
if cargo test --offline -p "$PKGN" --test "$T" >"$WT/.vs_clean.log" 2>&1; then CLEAN=pass; else CLEAN=FAIL; fi
rm -f "$DEST"
git apply "$SD/patch.diff"
if cargo test --workspace --offline >"$WT/.vs_ws.log" 2>&1; then WS=pass; else WS=FAIL; fi
cp "$SD/demo.rs" "$DEST"
if cargo test --offline -p "$PKGN" --test "$T" >"$WT/.vs_patched.log" 2>&1; then PATCHED=pass; else PATCHED=FAIL; fi
rm -f "$DEST"; git checkout -q -- .
echo "RESULT demo_on_clean=$CLEAN existing_tests_with_patch=$WS demo_with_patch=$PATCHED"
[ "$CLEAN" = pass ] && [ "$WS" = pass ] && [ "$PATCHED" = FAIL ]
