#!/bin/sh
# Proves the simulator deterministic (DESIGN.md 3.10): for every claimed
# property, N runs are executed at worker counts 1, 4 and 16, twice each, in
# separate processes; per-run plan digests and history digests must be identical
# across all six executions.  Exit 0 = deterministic, 2 = harness nondeterminism
# (plan digest differs), 1 = the code under test behaved differently (history
# digest differs: that is property C17).
N="${1:-512}"
HERE="$(cd "$(dirname "$0")/.." && pwd)"
BIN="$HERE/sim/target/release/h263-sim"
OUT="$HERE/.scratch/determinism.$$"
mkdir -p "$OUT"
rc=0
for P in C01 C03 C04 C05 C13 C14 C15 C17; do
    n="$N"
    [ "$P" = C05 ] && n=$((N / 8 + 1))
    i=0
    for W in 1 4 16 16 4 1; do
        i=$((i + 1))
        VERIF_DIR="$HERE" "$BIN" run "$P" quick --runs "$n" --workers "$W" --digests "$OUT/$P.$i" --quiet --no-evidence >/dev/null 2>"$OUT/$P.$i.err" || { echo "$P: run with $W workers exited non-zero"; cat "$OUT/$P.$i.err"; rc=2; }
    done
    for i in 2 3 4 5 6; do
        if ! cmp -s "$OUT/$P.1" "$OUT/$P.$i"; then
            if [ "$(cut -d' ' -f1,2 "$OUT/$P.1" | md5sum)" != "$(cut -d' ' -f1,2 "$OUT/$P.$i" | md5sum)" ]; then
                echo "$P: PLAN digests differ between executions 1 and $i (harness bug)"; rc=2
            else
                echo "$P: HISTORY digests differ between executions 1 and $i (nondeterministic code under test -> C17)"
                diff "$OUT/$P.1" "$OUT/$P.$i" | head -5
                [ $rc -eq 0 ] && rc=1
            fi
        fi
    done
    echo "$P: $(wc -l < "$OUT/$P.1") runs x 6 executions (workers 1,4,16,16,4,1) compared"
done
rm -rf "$OUT"
[ $rc -eq 0 ] && echo "determinism: OK"
exit $rc
