#!/usr/bin/env python3
"""Regenerates /verif/MANIFEST.json. Edit CLAIMED / NOT_APPLICABLE here."""
import json, subprocess

CLAIMED = {
 "C01": dict(level="exploration", design="4.1",
   text="Seeded search over fault-injecting decoder sessions (all four option sets, 1-3 decoders, histories of accepted/rejected pictures, size changes, zero sizes, surplus macroblocks, extreme levels, corrupted/random bytes, split and trickled delivery, source I/O faults). Oracle: every call returns Ok or Err; a panic (overflow, index, slice, division, debug_assert - all live under the harness profile), a dead worker, an exhausted read-step budget or a watchdog timeout is a violation. Adversarial structure (surplus macroblocks, zero / extreme sizes, references of another size, PLUSPTYPE header variety, unrestricted-vector ramps, floods of stuffing, start codes inside macroblock data) is generated alongside the random corruption. Process deaths and hangs are attributed to the run in flight. Sampling gives evidence, not proof; the input space is unbounded so nothing stronger is available with this technique.",
   note="Trusted: the harness profile turns every arithmetic overflow / OOB / div-by-zero into a caught panic; inputs declaring more than 2^22 luma samples are screened out (the property's own exclusion); the encoder's VLC tables are frozen from the pinned commit.",
   technique="deterministic simulation: seeded fault-injecting decoder sessions, no-crash / bounded-steps oracle"),

 "C03": dict(level="exploration", design="4.2",
   text="Step-wise refinement of the real decoder against an independent executable reconstruction model (candidate selection + median, differential wrap, chroma vector rounding, bilinear half-sample interpolation, edge clamping, dequantisation, f64 IDCT, clipping) over seeded histories I (P | truncated P | corrupted | cleanup)*, with truncation after any byte, chunked delivery and EINTR injected. Every accepted picture is compared sample for sample, starting each step from the real decoder's previous output. Seeded search, so evidence not proof; the space of P pictures x references is unbounded.",
   note="Trusted: model P (written from the Recommendation), the frozen VLC tables, the stated rounding tolerance (counted per run). Histories contain no disposable pictures (C04 decides which picture is the reference). Only predicted pictures are judged (intra reconstruction is C02, not claimed).",
   technique="deterministic simulation: seeded decoder histories with truncation/EINTR faults, refinement against an executable reference model"),
 "C04": dict(level="exploration", design="4.3",
   text="Seeded histories over {I, P, disposable P, rejected picture (corrupted, truncated in the header, I/O failure), clean-up} with arbitrary 8-bit temporal references (increasing, random, equal to the reference's, equal to the last picture's, wrapping), checked after every event against a reference-management model: get_last_picture() is the last accepted picture with exactly the header sent; rejected calls and clean-ups change nothing; every not-coded macroblock of a P/D picture is a copy of the last non-disposable accepted picture (with attribution of the picture actually used); a disposable picture is accepted and decoded exactly like the same bytes marked P in a decoder in the same state.",
   note="The verdict uses only copies and equalities, never reconstruction arithmetic, and the alarm is raised only for a positively attributed wrong reference. The 'same state' decoder is a fresh decoder taken through the identical call sequence on another thread. Standard mode has no disposable type. Includes histories of 258-320 pictures and an ultra-long sweep (65 600+ disposable pictures).",
   technique="deterministic simulation: seeded decoder histories with rejected pictures and I/O faults, reference-management model checked after every event"),
 "C05": dict(level="fault_enumeration", design="4.4",
   text="For each seeded scenario (history, valid victim picture, valid continuation) the faults are enumerated exhaustively: a hard I/O error at every source-read index (chained retries on the same reader), EINTR on every other read, every split point of the victim across two deliveries, one semantic poison per parsing depth (header, macroblock header, block data, prediction) and a sample of bit flips. After every failed call the decoder state must be bit-identical, the reader must still be at the start of the picture, the retry must equal a clean decode and the continuation must equal a twin decoder that never saw a failure.",
   note="Twin oracle: the same decoder on both sides, so it decides atomicity/consistency, not absolute correctness. Splits the decoder legitimately accepts as an early-ended picture are counted, not judged. Also run on a reader reused from the previous picture, behind a user-consumed container tag, with short-reading sources, EINTR bursts and chains of rejected pictures.",
   technique="deterministic simulation: exhaustive fault-position enumeration per seeded scenario against a fault-free twin"),
 "C13": dict(level="exploration", design="4.5",
   text="Pipeline invariant evaluated after every accepted picture of seeded fault-injecting decoder sessions (valid, truncated-but-accepted and corrupted-but-accepted pictures, size changes) and of a width x height x quantizer sweep: plane sizes and chroma row length as documented, deblock of all three planes with the tabulated strength and yuv420_to_rgba complete without panic (preconditions live as debug_assert) and yield 4*w*h bytes. The weakest fit of the claimed properties: its failure cases are reached by the size swarm and header corruption, not by schedules.",
   note="Only pictures with width, height >= 1 and quantizer 1..31 are judged. A panic inside the decoder itself is C01's verdict.",
   technique="deterministic simulation: cross-crate pipeline invariant checked after every accepted picture of seeded fault-injecting sessions plus a size sweep"),
 "C14": dict(level="exploration", design="4.6",
   text="Seeded operation histories over the real H263Reader (peek/read/signed/skip at widths 0..66 into seven integer types, read_vlc over generated tables, start-code recognition, commit, nested transactions / unions / look-aheads ending Ok/Err/None) on a source that delivers bytes late and injects EINTR and hard I/O errors, compared operation by operation with a bit-vector model; plus a systematic sweep of every start phase x operation x width.",
   note="Trusted: model R (a bit vector and a position). read_vlc always runs inside a transaction (its position after an error is documented as undefined). Start-code oracle is exactly as loose as the statement.",
   technique="deterministic simulation: seeded reader operation histories with late delivery and I/O faults against a bit-vector reference model"),
 "C15": dict(level="exploration", design="4.7",
   text="Differential twin over seeded streams: decoder A reads 1-6 concatenated valid pictures (any types, sizes changing at intra pictures, every end bit phase, fewer than eight zero pad bits) from one reader, delivered whole / at boundaries / with part of the following pictures, in chunks, with EINTR; twin B uses one reader per picture. Every call must agree in result, header and planes; calls on the exhausted stream must fail and change nothing.",
   note="Twin oracle: the per-picture reader defines what a picture decodes to. Bytes are completely delivered before the call that needs them (partial availability is C05/C03). Streams are byte-padded or bit-contiguous; up to 80 pictures per reader in seeded runs and 66 000 in a sweep; two decoders may take turns on the reader; the user may commit / peek / parse in a look-ahead / clean up between calls.",
   technique="deterministic simulation: seeded multi-picture streams under varied delivery, differential twin (one reader vs one reader per picture)"),
 "C17": dict(level="exploration", design="4.8",
   text="Seeded worlds of 2-4 caller threads owning 3-8 decoder instances run under a baton scheduler owned by the simulator (one thread at a time, pre-emption at every source read and call boundary, successor from the plan's schedule, so interleavings replay exactly). Replicas must agree; every instance's history digest must equal the same history run alone; a sample of runs is re-executed in two further groups of fresh processes and must give identical digests. The thorough tier adds Miri many-seeds executions of a three-thread scenario (finer interleavings, data-race and UB detection).",
   note="Interleaving granularity is source reads and call boundaries; finer effects only via the Miri layer. degraded_determinism (baton safety valve) is reported, never a violation.",
   technique="deterministic simulation: seeded baton thread scheduler interleaving decoder instances at every source read; replica / isolation / cross-process digests; Miri many-seeds"),
}

NOT_APPLICABLE = {
 "C02": "Pure function of one picture's bytes: no history, schedule, clock or fault participates; deciding it means generating inputs and comparing with an IDCT model, which is property-based testing, not deterministic simulation.",
 "C06": "parser::decode_picture(reader, options, previous_header) is a pure function of its arguments (mode inheritance is an explicit argument); the guarantee is per-field exhaustive enumeration of header values - nothing for a scheduler or fault injector to choose.",
 "C07": "Pure arithmetic over a finite domain of 2^24 triples; the deciding step is exhaustive enumeration, which this technique explicitly is not.",
 "C08": "yuv420_to_rgba is a pure function of four slices and a width; no state survives a call, no I/O, no schedule.",
 "C09": "deblock is a pure function of (image, width, strength); the claim is kernel equivalence over 2^32 patterns and all size residues - enumeration/proof territory, no interleaving or fault exists.",
 "C10": "Statistical accuracy of a pure numeric routine over a fixed block generator; no interleaving, fault or history exists (and it would need a hook exporting the IDCT).",
 "C11": "Finite pure table (quantizer x level x position) to be enumerated exhaustively; no state, no faults.",
 "C12": "Finite pure computation (predictor x differential, vector sums, neighbour classes) to be enumerated exhaustively; the history-dependent part of motion compensation is C03 and is claimed there.",
 "C16": "Pure function of (size, strength) plus a constant table; no state, no I/O, no schedule.",
}

PENDING = {}  # id -> reason, for properties whose check is still under construction

def main():
    hooks_commits = subprocess.check_output(["git","-C","/repo","log","--format=%H %s"],text=True).splitlines()
    hook_shas = [l.split()[0] for l in hooks_commits if "verif hook" in l]
    checks = []
    for pid, c in sorted(CLAIMED.items()):
        checks.append({
            "property_id": pid,
            "quick_cmd": f"./check {pid} quick",
            "thorough_cmd": f"./check {pid} thorough",
            "evidence_file": f"/verif/evidence/{pid}.json",
            "replay_cmd_template": "./check replay {path}",
            "engine": "h263-sim",
            "level_claimed": {"category": c["level"], "text": c["text"], "design_ref": f"DESIGN.md section {c['design']}"},
            "level_note": c["note"],
            "technique": c["technique"],
        })
    na = [{"property_id": k, "reason": v} for k, v in sorted({**NOT_APPLICABLE, **PENDING}.items())]
    m = {
        "version": 1,
        "setup_cmd": "./check build",
        "hooks": {
            "guard": "--cfg h263_rs_verif",
            "enable": "RUSTFLAGS '--cfg h263_rs_verif' via /verif/sim/.cargo/config.toml (the harness depends on /repo's crates by path, so every check rebuilds them from the working tree)",
            "baseline_off_cmd": "cd /repo && cargo test --workspace --no-fail-fast --offline",
            "source_commits": hook_shas,
            "add_only": True,
        },
        "engines": [{
            "name": "h263-sim",
            "path": "/verif/sim",
            "serves_properties": sorted(CLAIMED.keys()),
            "kind_free_text": "deterministic simulator: seeded plan generator -> explicit plan (events, pictures, transit and source faults, thread schedule) -> executor over REAL h263/deblock/yuv code behind a fault-injecting Read source -> history -> oracles / reference models; worker processes with watchdog; minimiser; replay files",
        }],
        "checks": checks,
        "not_applicable": na,
        "notes": "All checks honour VERIF_SEED (default 1). Exit 0 = held, 1 = VIOLATION line with replay file, 2 = harness/build error. Genuine defects found and repaired are listed in known_findings.json ('fixed' entries suppress nothing).",
    }
    json.dump(m, open("/verif/MANIFEST.json", "w"), indent=1)
    print("wrote MANIFEST.json:", len(checks), "checks,", len(na), "not applicable")

if __name__ == "__main__":
    main()
