#!/bin/sh
# usage: tools/try_seed.sh <patch.diff> [tier] [props...]
# Applies a seeded change to a SCRATCH worktree of /repo (never to /repo itself),
# builds the harness against it (VERIF_REPO) and runs the named checks (default:
# all claimed, quick) without touching the committed evidence.
# Prints one line per property: CAUGHT <class> / missed.
PATCH="$1"; TIER="${2:-quick}"; shift 2 2>/dev/null
PROPS="${*:-C01 C03 C04 C05 C13 C14 C15 C17}"
HERE="$(cd "$(dirname "$0")/.." && pwd)"
BIN="$HERE/sim/target/release/h263-sim"
WT="/tmp/wt_seed.$$"
git -C /repo worktree add -q --detach "$WT" HEAD || exit 2
trap 'git -C /repo worktree remove --force "$WT" >/dev/null 2>&1; "$HERE/check" build >/dev/null 2>&1' EXIT
git -C "$WT" apply "$PATCH" || { echo "patch does not apply"; exit 2; }
if ! VERIF_REPO="$WT" "$HERE/check" build 2>/dev/null; then echo "harness does not build with this patch"; exit 2; fi
for P in $PROPS; do
    OUT=$(VERIF_DIR="$HERE" "$BIN" run "$P" "$TIER" --no-evidence 2>&1)
    rc=$?
    if [ $rc -eq 1 ]; then
        echo "$P: CAUGHT  $(echo "$OUT" | grep -m1 'class:' )"
    elif [ $rc -eq 0 ]; then
        echo "$P: missed"
    else
        echo "$P: harness error rc=$rc: $(echo "$OUT" | tail -2)"
    fi
done
