#!/bin/sh
# usage: tools/try_seed.sh <patch.diff> [tier] [props...]
# Applies a seeded change to /repo's working tree, runs the named checks
# (default: all claimed, quick) WITHOUT touching the committed evidence, and
# restores /repo.  Prints one line per property: CAUGHT / missed.
PATCH="$1"; TIER="${2:-quick}"; shift 2 2>/dev/null
PROPS="${*:-C01 C03 C04 C05 C13 C14 C15 C17}"
HERE="$(cd "$(dirname "$0")/.." && pwd)"
BIN="$HERE/sim/target/release/h263-sim"
git -C /repo diff --quiet || { echo "/repo has uncommitted changes"; exit 2; }
git -C /repo apply "$PATCH" || { echo "patch does not apply"; exit 2; }
trap 'git -C /repo checkout -- . ; (cd "$HERE/sim" && cargo build --release --offline >/dev/null 2>&1)' EXIT
if ! (cd /repo && cargo test --workspace --offline >/dev/null 2>&1); then echo "NOTE: the repository's own tests FAIL with this patch"; fi
if ! (cd "$HERE/sim" && cargo build --release --offline >"$HERE/sim/build.log" 2>&1); then echo "harness does not build with this patch"; tail -5 "$HERE/sim/build.log"; exit 2; fi
for P in $PROPS; do
    OUT=$(VERIF_DIR="$HERE" "$BIN" run "$P" "$TIER" --no-evidence 2>&1)
    rc=$?
    if [ $rc -eq 1 ]; then
        echo "$P: CAUGHT  $(echo "$OUT" | grep -m1 'class:' )"
    elif [ $rc -eq 0 ]; then
        echo "$P: missed"
    else
        echo "$P: harness error rc=$rc: $(echo "$OUT" | tail -2)"
    fi
done
