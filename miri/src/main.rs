//! C17, Miri layer: real std threads under Miri's seeded pre-emptive scheduler
//! (`-Zmiri-many-seeds`), i.e. interleavings at basic-block granularity plus
//! data-race / UB detection that the baton scheduler cannot give.
//! Four threads start together; two are replicas decoding the same Sorenson
//! history, the third decodes a standard-mode history, the fourth drives a
//! stream and its content-only sibling alternately on one thread (first, concurrent use
//! of the lazily initialised option masks happens on non-main threads).
//! Afterwards the main thread decodes the same histories sequentially and all
//! digests must agree.
mod scenario;

use h263_rs::parser::H263Reader;
use h263_rs::{DecoderOption, H263State};
use std::io::Read;
use std::sync::{Arc, Barrier};

struct Src {
    data: Vec<u8>,
    pos: usize,
}

impl Read for Src {
    fn read(&mut self, buf: &mut [u8]) -> std::io::Result<usize> {
        std::thread::yield_now(); // a pre-emption point per source read
        if self.pos >= self.data.len() || buf.is_empty() {
            return Ok(0);
        }
        buf[0] = self.data[self.pos];
        self.pos += 1;
        Ok(1)
    }
}

fn fnv(h: &mut u64, bytes: &[u8]) {
    for b in bytes {
        *h ^= *b as u64;
        *h = h.wrapping_mul(0x0000_0100_0000_01B3);
    }
}

fn run(opts: DecoderOption, pics: &[&[u8]]) -> u64 {
    let mut st = H263State::new(opts);
    let mut h = 0xcbf2_9ce4_8422_2325u64;
    for p in pics {
        let mut r = H263Reader::from_source(Src { data: p.to_vec(), pos: 0 });
        match st.decode_next_picture(&mut r) {
            Ok(()) => fnv(&mut h, b"ok"),
            Err(e) => fnv(&mut h, format!("{e:?}").as_bytes()),
        }
        if let Some(lp) = st.get_last_picture() {
            let (y, cb, cr) = lp.as_yuv();
            fnv(&mut h, y);
            fnv(&mut h, cb);
            fnv(&mut h, cr);
            fnv(&mut h, format!("{:?}", lp.as_header()).as_bytes());
        }
    }
    h
}

/// Two decoders driven alternately, call by call, on ONE thread.
fn run_pair(a: &[&[u8]], b: &[&[u8]]) -> (u64, u64) {
    let mut sa = H263State::new(DecoderOption::SORENSON_SPARK_BITSTREAM);
    let mut sb = H263State::new(DecoderOption::SORENSON_SPARK_BITSTREAM);
    let (mut ha, mut hb) = (0xcbf2_9ce4_8422_2325u64, 0xcbf2_9ce4_8422_2325u64);
    for i in 0..a.len().max(b.len()) {
        for (st, pics, h) in [(&mut sa, a, &mut ha), (&mut sb, b, &mut hb)] {
            if let Some(p) = pics.get(i) {
                let mut r = H263Reader::from_source(Src { data: p.to_vec(), pos: 0 });
                match st.decode_next_picture(&mut r) {
                    Ok(()) => fnv(h, b"ok"),
                    Err(e) => fnv(h, format!("{e:?}").as_bytes()),
                }
                if let Some(lp) = st.get_last_picture() {
                    let (y, cb, cr) = lp.as_yuv();
                    fnv(h, y);
                    fnv(h, cb);
                    fnv(h, cr);
                    fnv(h, format!("{:?}", lp.as_header()).as_bytes());
                }
            }
        }
    }
    (ha, hb)
}

fn main() {
    let barrier = Arc::new(Barrier::new(4));
    let mut hs = Vec::new();
    for t in 0..3 {
        let b = barrier.clone();
        hs.push(std::thread::spawn(move || {
            b.wait();
            if t < 2 {
                run(DecoderOption::SORENSON_SPARK_BITSTREAM, scenario::SORENSON)
            } else {
                run(DecoderOption::empty(), scenario::STANDARD)
            }
        }));
    }
    // a fourth thread owns two instances: a stream and its content-only sibling
    let b4 = barrier.clone();
    let pair = std::thread::spawn(move || {
        b4.wait();
        run_pair(scenario::SORENSON, scenario::SORENSON_SIBLING)
    });
    let got: Vec<u64> = hs.into_iter().map(|h| h.join().expect("decoder thread panicked")).collect();
    let (pa, pb) = pair.join().expect("pair thread panicked");
    let alone_s = run(DecoderOption::SORENSON_SPARK_BITSTREAM, scenario::SORENSON);
    let alone_sib = run(DecoderOption::SORENSON_SPARK_BITSTREAM, scenario::SORENSON_SIBLING);
    let alone_p = run(DecoderOption::empty(), scenario::STANDARD);
    assert_eq!(got[0], got[1], "C17: replicas on two threads disagree");
    assert_eq!(got[0], alone_s, "C17: threaded Sorenson history differs from the sequential one");
    assert_eq!(got[2], alone_p, "C17: threaded standard-mode history differs from the sequential one");
    assert_eq!(pa, alone_s, "C17: instance interleaved with its sibling on one thread differs from running alone");
    assert_eq!(pb, alone_sib, "C17: sibling interleaved on one thread differs from running alone");
    assert_ne!(alone_s, alone_sib, "harness: the sibling must differ in content");
    println!("c17-miri ok {:016x} {:016x} {:016x}", alone_s, alone_sib, alone_p);
}
